#!/bin/sh
# tools/seedbatch.sh <Cxx> <checks...> : evaluate every patchK.diff in ${SEEDBASE:-/tmp/seeded_out}/<Cxx> against the given checks
P=$1; shift
for k in 1 2 3; do
  [ -f ${SEEDBASE:-/tmp/seeded_out}/$P/patch$k.diff ] || continue
  /verif/tools/seedeval.py ${SEEDBASE:-/tmp/seeded_out}/$P "$@" --patch patch$k.diff --demo demo$k.py > ${SEEDBASE:-/tmp/seeded_out}/$P/eval$k.json 2>&1
  /venv/bin/python - <<PY
import json
try:
    d=json.load(open('${SEEDBASE:-/tmp/seeded_out}/$P/eval$k.json'))
    print('$P seed $k: demo clean/patched = %s/%s' % (d.get('demo_clean_exit'), d.get('demo_patched_exit')), {c:(v['exit'], (v['lines'][1:2] or [''])[0].strip()[:110]) for c,v in d.get('checks',{}).items()}, d.get('apply_error',''))
except Exception as e:
    print('$P seed $k: eval failed', e)
PY
done
