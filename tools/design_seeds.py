#!/usr/bin/env python3
"""Rewrite section 8 of DESIGN.md (between the SEEDS-BEGIN / SEEDS-END markers) from /verif/seeded/*/meta.json."""
import json
import os

VERIF = os.path.dirname(os.path.dirname(os.path.abspath(__file__)))
rows = []
for name in sorted(os.listdir(os.path.join(VERIF, "seeded"))):
    mp = os.path.join(VERIF, "seeded", name, "meta.json")
    if os.path.exists(mp):
        rows.append((name, json.load(open(mp))))
lines = ["| seed | changed file | mechanism (what it needs to manifest) | caught by: first failing clause |", "|---|---|---|---|"]
nd = 0
for name, m in rows:
    det = "; ".join("**%s** %s" % (c, (ls[0].split(" signature=")[0].replace("clause=", "") if ls else "")) for c, ls in sorted(m.get("detected_by", {}).items()))
    if not det:
        det = "not caught (see below)"
        nd += 1
    what = (m.get("what") or "").replace("|", "/").replace("\n", " ")
    lines.append("| %s | `%s` | %s | %s |" % (name, (m.get("file") or "").replace("comb_spec_searcher/", ""), what[:330] + ("…" if len(what) > 330 else ""), det))
text = "\n".join(lines)
p = os.path.join(VERIF, "DESIGN.md")
s = open(p).read()
a, b = s.index("<!-- SEEDS-BEGIN -->"), s.index("<!-- SEEDS-END -->")
s = s[:a] + "<!-- SEEDS-BEGIN -->\n%d seeded changes kept, %d caught by at least one check.\n\n%s\n" % (len(rows), len(rows) - nd, text) + s[b:]
open(p, "w").write(s)
print(len(rows), "seeds,", nd, "not caught")
