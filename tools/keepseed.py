#!/usr/bin/env python3
"""tools/keepseed.py <Cxx> <k> <checks...>: confirm a sub-agent's seeded defect (tests still pass, demo fails with the
change and passes without it), run the given checks against it, and keep it as /verif/seeded/<Cxx>-<k>/."""
import json
import os
import shutil
import subprocess
import sys

VERIF = os.path.dirname(os.path.dirname(os.path.abspath(__file__)))
pid, k, checks = sys.argv[1], sys.argv[2], sys.argv[3:]
src = "%s/%s" % (os.environ.get("SEEDBASE", "/tmp/seeded_out"), pid)
r = subprocess.run([os.path.join(VERIF, "tools/seedeval.py"), src, *checks, "--patch", "patch%s.diff" % k, "--demo", "demo%s.py" % k, "--tests"],
                   capture_output=True, text=True)
res = json.loads(r.stdout[r.stdout.index("{"):])
agent_meta = {}
try:
    agent_meta = json.load(open(os.path.join(src, "meta%s.json" % k)))
except Exception:
    pass
ok = res.get("demo_clean_exit") == 0 and res.get("demo_patched_exit") not in (0, None) and "passed" in res.get("tests", "") and "failed" not in res.get("tests", "")
dst = os.path.join(VERIF, "seeded", "%s-%s%s" % (pid, os.environ.get("SEEDTAG", ""), k))
if not ok:
    print("NOT KEPT", pid, k, json.dumps({x: res.get(x) for x in ("demo_clean_exit", "demo_patched_exit", "tests", "apply_error")}))
    sys.exit(1)
os.makedirs(dst, exist_ok=True)
shutil.copy(os.path.join(src, "patch%s.diff" % k), os.path.join(dst, "patch.diff"))
shutil.copy(os.path.join(src, "demo%s.py" % k), os.path.join(dst, "demo.py"))
detected = {c: [l.strip() for l in v["lines"] if "clause=" in l][:3] for c, v in res["checks"].items() if v["exit"] == 1}
missed = [c for c, v in res["checks"].items() if v["exit"] == 0]
broken = [c for c, v in res["checks"].items() if v["exit"] not in (0, 1)]
meta = {"property": pid, "file": agent_meta.get("file"), "what": agent_meta.get("what"), "needs": agent_meta.get("needs"),
        "confirmed": {"repository_tests_with_change": res.get("tests"), "demo_exit_without_change": res.get("demo_clean_exit"),
                      "demo_exit_with_change": res.get("demo_patched_exit")},
        "ran": ["tools/seedeval.py %s %s --patch patch%s.diff --demo demo%s.py --tests  (scratch worktree of /repo HEAD + git apply; "
                "checks run with VERIF_REPO pointing at it)" % (src, " ".join(checks), k, k)],
        "detected_by": detected, "checks_run_that_stayed_green": missed, "checks_with_machinery_failure": broken}
json.dump(meta, open(os.path.join(dst, "meta.json"), "w"), indent=1)
print("KEPT", pid, k, "detected by", sorted(detected), "green", missed, "broken", broken)
