#!/usr/bin/env python3
"""tools/reseed.py: re-evaluate every kept seeded defect under /verif/seeded against the current checks and rewrite
meta.json['detected_by'...] and /verif/seeded/INDEX.md."""
import json
import os
import subprocess
import sys

VERIF = os.path.dirname(os.path.dirname(os.path.abspath(__file__)))
SEEDED = os.path.join(VERIF, "seeded")
EXTRA = {"C02-1": ["C06"], "C17-1": ["C05"], "C17-2": ["C01"], "C01-2": ["C09"], "C20-2": ["C09"], "C11-2": ["C02"], "C18-2": ["C12"], "C11-1": ["C02"],
         "C04-1": ["C14"], "C04-2": ["C14"], "C02-2": ["C11"]}
rows = []
only = sys.argv[1:]
for name in sorted(os.listdir(SEEDED)):
    d = os.path.join(SEEDED, name)
    if not os.path.isdir(d) or not os.path.exists(os.path.join(d, "patch.diff")):
        continue
    meta = json.load(open(os.path.join(d, "meta.json")))
    if not only or name in only:
        # the seed's own property, plus every check that was run against it before (reported it or stayed green)
        checks = [meta["property"]] + EXTRA.get(name, [])
        for c in list(meta.get("detected_by", {})) + list(meta.get("checks_run_that_stayed_green", [])) + list(meta.get("checks_with_machinery_failure", [])):
            if c not in checks:
                checks.append(c)
        r = subprocess.run([os.path.join(VERIF, "tools/seedeval.py"), d, *checks], capture_output=True, text=True)
        res = json.loads(r.stdout[r.stdout.index("{"):])
        if "checks" not in res:
            print(name, "NOT EVALUATED:", json.dumps(res)[:300], flush=True)
            rows.append((name, meta))
            continue
        meta["confirmed"]["demo_exit_without_change"] = res.get("demo_clean_exit")
        meta["confirmed"]["demo_exit_with_change"] = res.get("demo_patched_exit")
        meta["detected_by"] = {c: [l.strip() for l in v["lines"] if "clause=" in l][:3] for c, v in res["checks"].items() if v["exit"] == 1}
        meta["checks_run_that_stayed_green"] = [c for c, v in res["checks"].items() if v["exit"] == 0]
        meta["checks_with_machinery_failure"] = [c for c, v in res["checks"].items() if v["exit"] not in (0, 1)]
        meta["ran"] = ["tools/seedeval.py seeded/%s %s  (scratch worktree of /repo HEAD + git apply patch.diff; quick tier with VERIF_REPO pointing at it); "
                       "repository tests with the change: %s" % (name, " ".join(checks), meta["confirmed"].get("repository_tests_with_change"))]
        json.dump(meta, open(os.path.join(d, "meta.json"), "w"), indent=1)
        print(name, "detected by", sorted(meta["detected_by"]), "green", meta["checks_run_that_stayed_green"], "broken", meta["checks_with_machinery_failure"], flush=True)
    rows.append((name, meta))
with open(os.path.join(SEEDED, "INDEX.md"), "w") as f:
    f.write("# Seeded defects (written by independent sub-agents from the property text alone) and the checks that report them\n\n")
    f.write("Each directory holds `patch.diff` (applies to /repo HEAD), `demo.py` (exits 1 with the change, 0 without), `meta.json`.\n")
    f.write("Every change keeps the repository's 45 tests green.  `tools/seedeval.py seeded/<dir> <checks>` re-runs the evaluation.\n\n")
    f.write("| seed | file | needs, to manifest | reported by (clause) | stayed green |\n|---|---|---|---|---|\n")
    for name, m in rows:
        det = "; ".join("%s: %s" % (c, (ls[0].split(" signature=")[0].replace("clause=", "") if ls else "")) for c, ls in sorted(m.get("detected_by", {}).items())) or "**not detected**"
        f.write("| %s | %s | %s | %s | %s |\n" % (name, m.get("file"), (m.get("needs") or "").replace("|", "/").replace("\n", " ")[:260], det, ", ".join(m.get("checks_run_that_stayed_green", []))))
print("INDEX.md written:", len(rows), "seeds")
