#!/usr/bin/env python3
"""Evaluate a seeded defect: tools/seedeval.py <dir with patch.diff [+ demo.py]> <check ids...>

Creates a scratch worktree of /repo's HEAD, applies the patch, confirms that the repository's own test
suite still passes (--tests) and that the demonstration fails with the patch and passes without it
(--demo), runs the given checks (quick tier) against the patched tree via VERIF_REPO (evidence and
replays go to a scratch directory), prints which checks raised a VIOLATION, and removes the worktree.
The official procedure (git -C /repo apply; run; git -C /repo checkout -- .) gives the same result;
this variant leaves /repo untouched so that it can run next to other work.
"""
import argparse
import json
import os
import shutil
import subprocess
import sys
import tempfile

VERIF = os.path.dirname(os.path.dirname(os.path.abspath(__file__)))


def sh(cmd, **kw):
    return subprocess.run(cmd, shell=True, capture_output=True, text=True, **kw)


def main():
    ap = argparse.ArgumentParser()
    ap.add_argument("dir")
    ap.add_argument("checks", nargs="*")
    ap.add_argument("--patch", default="patch.diff")
    ap.add_argument("--demo", default="demo.py")
    ap.add_argument("--tests", action="store_true")
    ap.add_argument("--tier", default="quick")
    a = ap.parse_args()
    wt = tempfile.mkdtemp(prefix="seedeval-", dir="/tmp")
    scratch = tempfile.mkdtemp(prefix="seedscratch-", dir="/tmp")
    os.rmdir(wt)
    res = {"dir": a.dir, "patch": a.patch}
    try:
        r = sh("git -C /repo worktree add -q --detach %s HEAD" % wt)
        if r.returncode:
            print(r.stderr); return 2
        demo = os.path.join(a.dir, a.demo)
        if os.path.exists(demo):
            r0 = sh("PYTHONPATH=%s PYTHONHASHSEED=0 timeout 600 /venv/bin/python %s" % (wt, demo), cwd="/tmp")
            res["demo_clean_exit"] = r0.returncode
        r = sh("git -C %s apply %s" % (wt, os.path.abspath(os.path.join(a.dir, a.patch))))
        if r.returncode:
            res["apply_error"] = r.stderr[-500:]
            print(json.dumps(res, indent=1)); return 2
        if os.path.exists(demo):
            r1 = sh("PYTHONPATH=%s PYTHONHASHSEED=0 timeout 600 /venv/bin/python %s" % (wt, demo), cwd="/tmp")
            res["demo_patched_exit"] = r1.returncode
        if a.tests:
            rt = sh("cd %s && PYTHONPATH=%s /venv/bin/python -m pytest -q -p no:cacheprovider --timeout=900 2>&1 | tail -2" % (wt, wt))
            res["tests"] = rt.stdout.strip().splitlines()[-1] if rt.stdout.strip() else rt.stderr[-200:]
        res["checks"] = {}
        for c in a.checks:
            rc = sh("VERIF_REPO=%s VERIF_SCRATCH=%s timeout 1500 ./check %s --tier %s" % (wt, scratch, c, a.tier), cwd=VERIF)
            viol = [l for l in rc.stdout.splitlines() if l.startswith("VIOLATION") or l.startswith("  clause=") or "MACHINERY" in l]
            res["checks"][c] = {"exit": rc.returncode, "lines": viol[:8], "summary": (rc.stdout.strip().splitlines() or [""])[-1][:200]}
    finally:
        sh("git -C /repo worktree remove --force %s" % wt)
        shutil.rmtree(scratch, ignore_errors=True)
    print(json.dumps(res, indent=1))
    return 0


if __name__ == "__main__":
    sys.exit(main())
