INIT SInit
NEXT SNext
CONSTRAINT Bounded
INVARIANT RuleFaithful
INVARIANT KeyFaithful
INVARIANT LabelsInjective
INVARIANT CacheTruthfulS
INVARIANT SkippedAreVerified
INVARIANT FoundOnlyIfReferenceFinds
INVARIANT ExhaustedAgreesWithReference
INVARIANT NotFoundOnlyIfReferenceFindsNone
CHECK_DEADLOCK FALSE
