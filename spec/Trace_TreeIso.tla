----------------------------- MODULE Trace_TreeIso -----------------------------
(* Batch trace monitor for C12 on the tree universe: pairs of TLC-chosen productive systems, the real       *)
(* specifications built from them, the library's isomorphism test and bijection.                             *)
(*  {tid, A, B : systems (TreeUniverse.tla), events:[...]}                                                    *)
(*   counts : side, got = <<number of objects of the root for n = 0..>> as the fixture class enumerates them    *)
(*            (FIXTURE clause: the fixture is the system TLC chose)                                             *)
(*   check, reflexive : as in Iso.tla                                                                          *)
(*   tbij  : n, fwd = <<<<object of A, its image>>>>, inv = <<<<object of B, its image under the inverse>>>>,  *)
(*           failed = "" or the exception a map call raised                                                    *)
(*   bisim : ans = the library's answer; a disagreement with Bisim.tla is a note, not a verdict                *)
EXTENDS TreeUniverse, Bisim, Json, IOUtils
Traces == ndJsonDeserialize(IOEnv.TRACE_FILE)
VARIABLES t, l
vars == <<t, l>>
PairsT(tbl) == {<<tbl[i][1], tbl[i][2]>> : i \in 1..Len(tbl)}
DomT(tbl) == {tbl[i][1] : i \in 1..Len(tbl)}
RanT(tbl) == {tbl[i][2] : i \in 1..Len(tbl)}
ImgT(tbl, x) == (CHOOSE p \in PairsT(tbl) : p[1] = x)[2]
TBijClause(sysA, sysB, e) ==
  LET A == TObjs(sysA, 1, e.n)  B == TObjs(sysB, 1, e.n) IN
  CASE DomT(e.fwd) # A \/ DomT(e.inv) # B -> "FIXTURE:EveryObjectWasMapped"
    [] e.failed # "" -> "MappingAnObjectSucceeds"
    [] ~(RanT(e.fwd) \subseteq B) -> "MapSendsObjectsToObjectsOfTheSameSizeInTheSecondClass"
    [] Cardinality(RanT(e.fwd)) # Cardinality(A) -> "MapIsOneToOne"
    [] RanT(e.fwd) # B -> "MapIsOnto"
    [] \E x \in A : ImgT(e.inv, ImgT(e.fwd, x)) # x -> "InverseUndoesTheMap"
    [] \E y \in B : ImgT(e.fwd, ImgT(e.inv, y)) # y -> "MapUndoesTheInverse"
    [] OTHER -> "ok"
CheckClauseT(e) ==
  CASE e.ab \notin {"T", "F"} \/ e.ba \notin {"T", "F"} -> "IsomorphismTestIsTotal"
    [] e.ab # e.ba -> "IsomorphismTestIsSymmetric"
    [] OTHER -> "ok"
\* the systems as Bisim.tla nodes: a one-child union is an equivalence
NodeB(sys, c) == [eq |-> (sys[c].k = "U" /\ Len(sys[c].ch) = 1), k |-> sys[c].k, ch |-> sys[c].ch, atom |-> (sys[c].k = "A"), sz |-> sys[c].sz]
AsBisim(sys) == [c \in 1..Len(sys) |-> NodeB(sys, c)]
BisimT(tr) == Bisimilar(AsBisim(tr.A), {}, 1, AsBisim(tr.B), {}, 1)
Clause(tr, e) ==
  CASE e.op = "counts" ->
         LET sys == IF e.side = "A" THEN tr.A ELSE tr.B IN
         IF \A n \in 1..Len(e.got) : e.got[n] = Cardinality(TObjs(sys, 1, n - 1)) THEN "ok" ELSE "FIXTURE:ClassEnumeratesTheObjectsOfTheSystem"
    [] e.op = "check" -> CheckClauseT(e)
    [] e.op = "reflexive" -> IF e.res # "T" THEN "IsomorphismTestIsReflexiveWhenVerifiedClassesAreAtoms" ELSE "ok"
    [] e.op = "tbij" -> TBijClause(tr.A, tr.B, e)
    [] e.op = "bisim" -> IF (e.ans = "T") # BisimT(tr) /\ PrintT(<<"INFO", tr.tid, "library-test-disagrees-with-bisimulation", e.ans>>) THEN "ok" ELSE "ok"
    [] OTHER -> "UnknownEvent"
Init == t = 1 /\ l = 1 /\ TLCSet(1, 0)
Step == /\ t <= Len(Traces) /\ l <= Len(Traces[t].events)
        /\ LET c == Clause(Traces[t], Traces[t].events[l]) IN
             IF c = "ok" THEN l' = l + 1 /\ t' = t
             ELSE PrintT(<<"REJECT", Traces[t].tid, l, c>>) /\ t' = t + 1 /\ l' = 1
Finish == /\ t <= Len(Traces) /\ l > Len(Traces[t].events)
          /\ TLCSet(1, TLCGet(1) + 1) /\ t' = t + 1 /\ l' = 1
Next == Step \/ Finish
Spec == Init /\ [][Next]_vars
Post == PrintT(<<"ACCEPTED", TLCGet(1), "OF", Len(Traces)>>)
=============================================================================
