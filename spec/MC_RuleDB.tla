----------------------------- MODULE MC_RuleDB -----------------------------
(* Every insertion history of <= MaxRules rules over labels 0..NL-1 (arity 0..2, single-child    *)
(* rules one-way or two-way), root 0.  Checked on the model: the answer only depends on the set  *)
(* of rules (trivially, by definition) and is monotone; iterative derivability implies survival. *)
(* Exported: every maximal history, replayed into a real RuleDB in that insertion order.          *)
EXTENDS RuleDB, Json
CONSTANTS NL, MaxRules, EmitMode
Labels == 0..(NL - 1)
NonDecr(r) == \A i \in 1..(Len(r) - 1) : r[i] <= r[i + 1]
Alphabet == {[s |-> s, e |-> <<>>, tw |-> FALSE] : s \in Labels}
            \cup {[s |-> s, e |-> <<c>>, tw |-> b] : s \in Labels, c \in Labels, b \in BOOLEAN}
            \cup {[s |-> s, e |-> e, tw |-> FALSE] : s \in Labels, e \in {x \in [1..2 -> Labels] : NonDecr(x)}}
VARIABLES hist
Init == hist = <<>>
Next == Len(hist) < MaxRules /\ \E r \in Alphabet : hist' = Append(hist, r)
Spec == Init /\ [][Next]_hist
Rules(h) == ToSet(h)
MonotoneRec  == [][HasSpec(Rules(hist), 0, FALSE) => HasSpec(Rules(hist'), 0, FALSE)]_hist
IterImpliesRec == HasSpec(Rules(hist), 0, TRUE) => HasSpec(Rules(hist), 0, FALSE)
EmitFinal == (EmitMode = "final" /\ Len(hist) = MaxRules) => PrintT(<<"H", ToJson(hist)>>)
=============================================================================
