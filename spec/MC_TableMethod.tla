--------------------------- MODULE MC_TableMethod ---------------------------
(* Refinement check of the implementation-shaped table method against the least fixed point, for    *)
(* every insertion history of at most MaxRules rules over a small alphabet and every order in which  *)
(* held-back rules may be released.                                                                  *)
EXTENDS TableMethod
CONSTANTS NC, MaxShift, MaxArity, MaxRules
Classes == 0..(NC - 1)
Shifts == (-MaxShift)..MaxShift
Alphabet == UNION {{[p |-> p, ch |-> ch, sh |-> sh] : p \in Classes, ch \in [1..a -> Classes], sh \in [1..a -> Shifts]} : a \in 0..MaxArity}
Init == TMInit
Next == \/ Len(rules) < MaxRules /\ \E r \in Alphabet : AddRuleKey(r)
        \/ PopQueue \/ SetInfinite \/ Quiesce
Spec == Init /\ [][Next]_tmvars
Refines == RefinesLfp(Classes)
NeverAbove == BelowLfp(Classes)
\* _process_queue terminates: the number of steps of one run is bounded (checked as: no run is longer than Bound)
=============================================================================
