CONSTANTS NL = 3 MaxDepth = 40 EmitMode = "all"
SPECIFICATION Spec
VIEW ViewCover
INVARIANT InvPartition
INVARIANT InvSound
INVARIANT InvExact
INVARIANT EmitAll
INVARIANT EmitFinal
PROPERTY VerMonotone
PROPERTY EqMonotone
CHECK_DEADLOCK FALSE
