------------------------------ MODULE PruneAlg ------------------------------
(* Implementation-shaped prune() and iterative_prune() of tree_searcher.py as small-step systems:  *)
(* one step removes one rule that mentions a label no longer in the dictionary (prune), resp. moves  *)
(* one rule all of whose children are verified (iterative_prune); dictionary iteration order is any.  *)
(* MC_PruneAlg: from every dictionary, every run ends in Pruned(rd) resp. IterPruned(rd, root).        *)
EXTENDS Prune
VARIABLES d0, root, d, ver, moved, mode
pavars == <<d0, root, d, ver, moved, mode>>
Dead(dd) == {<<k, r>> : k \in DOMAIN dd, r \in UNION {dd[x] : x \in DOMAIN dd}} \cap
            {kr \in {<<k, r>> : k \in DOMAIN dd, r \in UNION {dd[x] : x \in DOMAIN dd}} : kr[2] \in dd[kr[1]] /\ \E i \in 1..Len(kr[2]) : kr[2][i] \notin DOMAIN dd}
Without(dd, k, r) == LET s == dd[k] \ {r} IN IF s = {} THEN [x \in DOMAIN dd \ {k} |-> dd[x]] ELSE [dd EXCEPT ![k] = s]
PruneStep == /\ mode = "prune" /\ \E kr \in Dead(d) : d' = Without(d, kr[1], kr[2])
             /\ UNCHANGED <<d0, root, ver, moved, mode>>
\* iterative_prune: verified labels start with the root; a rule whose children are all verified moves to the result
Ready(dd, v) == {kr \in {<<k, r>> : k \in DOMAIN dd, r \in UNION {dd[x] : x \in DOMAIN dd}} : kr[2] \in dd[kr[1]] /\ \A i \in 1..Len(kr[2]) : kr[2][i] \in v}
IterStep == /\ mode = "iter" /\ \E kr \in Ready(d, ver) :
                 /\ d' = Without(d, kr[1], kr[2])
                 /\ ver' = ver \cup {kr[1]}
                 /\ moved' = [x \in DOMAIN moved \cup {kr[1]} |-> (IF x \in DOMAIN moved THEN moved[x] ELSE {}) \cup (IF x = kr[1] THEN {kr[2]} ELSE {})]
            /\ UNCHANGED <<d0, root, mode>>
PANext == PruneStep \/ IterStep
PruneDone == mode = "prune" /\ Dead(d) = {}
IterDone == mode = "iter" /\ Ready(d, ver) = {}
PruneEndsInGfp == PruneDone => d = Pruned(d0)
IterEndsInDerivable == IterDone => moved = IterPruned(d0, root)
=============================================================================
