----------------------------- MODULE Trace_Table -----------------------------
(* Batch trace monitor for the forest table method (TableMethod / RuleDBForest).                *)
(*  {tid, nc, events:[{op, p, ch, sh, fn}]}                                                      *)
(*   op = "add"     : add_rule_key(parent p, children ch, shifts sh)                             *)
(*   op = "observe" : fn = the reported function as a vector over classes 0..nc-1                *)
(*                    (number of computable terms, -1 for "pumping")                              *)
(* Accepted iff every observed vector equals the least fixed point over the rules inserted so    *)
(* far (Productivity.tla), whatever the insertion order; monotonicity follows.                   *)
EXTENDS Productivity, TLC, Json, IOUtils
Traces == ndJsonDeserialize(IOEnv.TRACE_FILE)
VARIABLES t, l, rules, prev
vars == <<t, l, rules, prev>>
Clause(rs, pv, tr, e) ==
  IF e.op = "observe" THEN
     LET C == 0..(tr.nc - 1)  a == Answer(rs, C) IN
     CASE Len(e.fn) # tr.nc -> "MalformedObservation"
       [] \E c \in C : e.fn[c + 1] # a[c] /\ (a[c] = -1 \/ e.fn[c + 1] = -1) -> "PumpingSetEqualsLeastFixedPoint"
       [] \E c \in C : e.fn[c + 1] # a[c] -> "ComputableTermsEqualLeastFixedPoint"
       [] pv # <<>> /\ \E c \in C : ~Le(pv[c + 1], e.fn[c + 1]) -> "OnlyGrows"
       [] OTHER -> "ok"
  ELSE IF e.op = "add" THEN (IF Len(e.ch) = Len(e.sh) THEN "ok" ELSE "MalformedRule")
  ELSE "UnknownEvent"
Init == t = 1 /\ l = 1 /\ rules = {} /\ prev = <<>> /\ TLCSet(1, 0)
Step == /\ t <= Len(Traces) /\ l <= Len(Traces[t].events)
        /\ LET e == Traces[t].events[l]  c == Clause(rules, prev, Traces[t], e) IN
             IF c = "ok" THEN /\ rules' = IF e.op = "add" THEN rules \cup {[p |-> e.p, ch |-> e.ch, sh |-> e.sh]} ELSE rules
                              /\ prev' = IF e.op = "observe" THEN e.fn ELSE prev
                              /\ l' = l + 1 /\ t' = t
             ELSE /\ PrintT(<<"REJECT", Traces[t].tid, l, c>>)
                  /\ t' = t + 1 /\ l' = 1 /\ rules' = {} /\ prev' = <<>>
Finish == /\ t <= Len(Traces) /\ l > Len(Traces[t].events)
          /\ TLCSet(1, TLCGet(1) + 1)
          /\ t' = t + 1 /\ l' = 1 /\ rules' = {} /\ prev' = <<>>
Next == Step \/ Finish
Spec == Init /\ [][Next]_vars
Post == PrintT(<<"ACCEPTED", TLCGet(1), "OF", Len(Traces)>>)
=============================================================================
