CONSTANTS NL = 2 MaxPer = 2 MaxArity = 2 EmitMode = "all"
SPECIFICATION Spec
INVARIANT GfpAgrees
INVARIANT IterAgrees
INVARIANT TreeIffSurvives
INVARIANT IterImpliesGfpWithRoot
INVARIANT Emit
CHECK_DEADLOCK FALSE
