---------------------------- MODULE ForestExtract ----------------------------
(* Extraction of a specification from the forest rule database (rule_db/forest.py,               *)
(* ForestRuleExtractor): from the inserted keys U in which the root pumps, a set S is chosen.     *)
(* A key is [p, ch, sh, b]: parent, children, shifts, bucket in                                    *)
(*   "VERIFICATION" | "EQUIV" | "NORMAL" | "REVERSE".                                              *)
(* C11: S is a subset of U, productive for the root, has exactly one rule per class it mentions,   *)
(* mentions no class without a rule, becomes unproductive if any single rule is removed, and uses  *)
(* reverse rules only if U without its reverse rules is not productive for the root.               *)
EXTENDS Productivity, TLC
AsRule(k) == [p |-> k.p, ch |-> k.ch, sh |-> k.sh]
K4(k) == [p |-> k.p, ch |-> k.ch, sh |-> k.sh, b |-> k.b]     \* a key without any bookkeeping fields
RulesOf(K) == {AsRule(k) : k \in K}
Pumps(K, root) == LET R == RulesOf(K)  C == ClassesOf(R) \cup {root} IN Answer(R, C)[root] = -1
Mentioned(K) == {k.p : k \in K} \cup UNION {{k.ch[i] : i \in 1..Len(k.ch)} : k \in K}
ExtractClause(S, U, root) ==
  \* S, U : sequences of keys (U as inserted, S as extracted)
  LET SS == {K4(S[i]) : i \in 1..Len(S)}  UU == {K4(U[i]) : i \in 1..Len(U)} IN
  CASE ~(SS \subseteq UU) -> "ExtractedRulesWereInserted"
    [] ~Pumps(SS, root) -> "ExtractedSetIsProductiveForTheStartClass"
    [] \E i, j \in 1..Len(S) : i # j /\ S[i].p = S[j].p -> "ExactlyOneRulePerMentionedClass"
    [] \E c \in Mentioned(SS) : c \notin {k.p : k \in SS} -> "NoMentionedClassWithoutARule"
    [] \E k \in SS : Pumps(SS \ {k}, root) -> "UnproductiveIfAnySingleRuleIsRemoved"
    [] (\E k \in SS : k.b = "REVERSE") /\ Pumps({k \in UU : k.b # "REVERSE"}, root) -> "ReverseRulesOnlyWhenNeeded"
    [] OTHER -> "ok"
\* The theorem the library's sanity check relies on: a minimal productive set is functional and closed
MinimalProductive(SS, root) == Pumps(SS, root) /\ \A k \in SS : ~Pumps(SS \ {k}, root)
FunctionalSet(SS) == \A k1, k2 \in SS : k1.p = k2.p => k1 = k2
ClosedSet(SS) == Mentioned(SS) \subseteq {k.p : k \in SS}
=============================================================================
