---------------------------- MODULE ForestExtract ----------------------------
(* Extraction of a specification from the forest rule database (rule_db/forest.py,               *)
(* ForestRuleExtractor): from the inserted keys U in which the root pumps, a set S is chosen.     *)
(* A key is [p, ch, sh, b]: parent, children, shifts, bucket in                                    *)
(*   "VERIFICATION" | "EQUIV" | "NORMAL" | "REVERSE".                                              *)
(* C11: S is a subset of U, productive for the root, has exactly one rule per class it mentions,   *)
(* mentions no class without a rule, becomes unproductive if any single rule is removed, and uses  *)
(* reverse rules only if U without its reverse rules is not productive for the root.               *)
EXTENDS Productivity, TLC
AsRule(k) == [p |-> k.p, ch |-> k.ch, sh |-> k.sh]
K4(k) == [p |-> k.p, ch |-> k.ch, sh |-> k.sh, b |-> k.b]     \* a key without any bookkeeping fields
RulesOf(K) == {AsRule(k) : k \in K}
Pumps(K, root) == LET R == RulesOf(K)  C == ClassesOf(R) \cup {root} IN Answer(R, C)[root] = -1
Mentioned(K) == {k.p : k \in K} \cup UNION {{k.ch[i] : i \in 1..Len(k.ch)} : k \in K}
ExtractClause(S, U, root) ==
  \* S, U : sequences of keys (U as inserted, S as extracted)
  LET SS == {K4(S[i]) : i \in 1..Len(S)}  UU == {K4(U[i]) : i \in 1..Len(U)} IN
  CASE ~(SS \subseteq UU) -> "ExtractedRulesWereInserted"
    [] ~Pumps(SS, root) -> "ExtractedSetIsProductiveForTheStartClass"
    [] \E i, j \in 1..Len(S) : i # j /\ S[i].p = S[j].p -> "ExactlyOneRulePerMentionedClass"
    [] \E c \in Mentioned(SS) : c \notin {k.p : k \in SS} -> "NoMentionedClassWithoutARule"
    [] \E k \in SS : Pumps(SS \ {k}, root) -> "UnproductiveIfAnySingleRuleIsRemoved"
    [] (\E k \in SS : k.b = "REVERSE") /\ Pumps({k \in UU : k.b # "REVERSE"}, root) -> "ReverseRulesOnlyWhenNeeded"
    [] OTHER -> "ok"
\* ---- implementation-shaped: ForestRuleExtractor._minimize -------------------------------------------
\* byBucket: function bucket name -> sequence of the keys of that bucket in the pumping sub-universe, in insertion
\* order.  Buckets are minimised in the order REVERSE, NORMAL, EQUIV, VERIFICATION; while one is minimised the
\* others count fully (the ones already minimised are empty by then, their needed keys are in `needed`).
MinimizeOrder == <<"REVERSE", "NORMAL", "EQUIV", "VERIFICATION">>
SeqSetK(s) == {s[i] : i \in 1..Len(s)}
OthersOf(bb, key) == UNION {SeqSetK(bb[k]) : k \in DOMAIN bb \ {key}}
RECURSIVE FirstLoop(_, _, _, _, _)
\* returns maybe_useful after the first loop of _minimize_key
FirstLoop(minimizing, maybe, needed, others, root) ==
  IF minimizing = <<>> THEN maybe
  ELSE IF Pumps(SeqSetK(needed) \cup SeqSetK(maybe) \cup others, root) THEN maybe          \* minimizing.clear(); break
  ELSE LET i == Min({j \in 1..Len(minimizing) : Pumps(SeqSetK(needed) \cup SeqSetK(maybe) \cup others \cup SeqSetK(SubSeq(minimizing, 1, j)), root)})
       IN FirstLoop(SubSeq(minimizing, 1, i - 1), Append(maybe, minimizing[i]), needed, others, root)
RECURSIVE SecondLoop(_, _, _, _)
SecondLoop(maybe, needed, others, root) ==
  IF maybe = <<>> THEN needed
  ELSE LET rk == maybe[Len(maybe)]  rest == SubSeq(maybe, 1, Len(maybe) - 1) IN
       IF ~Pumps(SeqSetK(needed) \cup SeqSetK(rest) \cup others, root)
       THEN SecondLoop(rest, Append(needed, rk), others, root) ELSE SecondLoop(rest, needed, others, root)
RECURSIVE MinimizeFrom(_, _, _, _)
MinimizeFrom(bb, needed, k, root) ==
  IF k > Len(MinimizeOrder) THEN needed
  ELSE LET key == MinimizeOrder[k]
           others == OthersOf(bb, key)
           maybe == FirstLoop(bb[key], <<>>, needed, others, root)
           needed2 == SecondLoop(maybe, needed, others, root)
       IN MinimizeFrom([bb EXCEPT ![key] = <<>>], needed2, k + 1, root)
\* the pumping sub-universe of U, sorted by bucket
ByBucket(U, root) ==
  LET UU == {K4(U[i]) : i \in 1..Len(U)}
      R == RulesOf(UU)  C == ClassesOf(R) \cup {root}  a == Answer(R, C)
      stable(k) == a[k.p] = -1 /\ \A j \in 1..Len(k.ch) : a[k.ch[j]] = -1
  IN [b \in {"REVERSE", "NORMAL", "EQUIV", "VERIFICATION"} |-> SelectSeq([i \in 1..Len(U) |-> K4(U[i])], LAMBDA k : k.b = b /\ stable(k))]
Minimize(U, root) == MinimizeFrom(ByBucket(U, root), <<>>, 1, root)

\* The theorem the library's sanity check relies on: a minimal productive set is functional and closed
MinimalProductive(SS, root) == Pumps(SS, root) /\ \A k \in SS : ~Pumps(SS \ {k}, root)
FunctionalSet(SS) == \A k1, k2 \in SS : k1.p = k2.p => k1 = k2
ClosedSet(SS) == Mentioned(SS) \subseteq {k.p : k \in SS}
=============================================================================
