CONSTANTS NC = 2 MaxShift = 1 MaxArity = 2 MaxKeys = 2 EmitMode = "pumping" AllBuckets = FALSE
SPECIFICATION Spec
INVARIANT MinimalImpliesFunctionalAndClosed
INVARIANT MinimizeMeetsPostconditions
INVARIANT Emit
CHECK_DEADLOCK FALSE
