CONSTANTS NC = 2 MaxShift = 1 MaxArity = 2 MaxKeys = 2 EmitMode = "pumping"
SPECIFICATION Spec
INVARIANT MinimalImpliesFunctionalAndClosed
INVARIANT Emit
CHECK_DEADLOCK FALSE
