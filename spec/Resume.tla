------------------------------- MODULE Resume -------------------------------
(* Pickling and interruption of a search (C17) as a product construction: at a fork the searcher *)
(* is saved and restored; from then on the original and the restored copy receive the same calls. *)
(* An observation of one copy is a record                                                         *)
(*   packets  : the work expanded since the fork, in order                                        *)
(*   store    : the class carried by each label (sequence of class names, index = label + 1)      *)
(*   empt     : the cached emptiness per label ("T" / "F" / "U")                                    *)
(*   keys     : the stored rule keys                                                               *)
(*   ver      : is_verified per label (0/1)                                                        *)
(*   answers  : the answers of has_specification since the fork                                    *)
(*   outcome  : how the continuation ended ("spec" / "none" / "timeout" / exception name)          *)
(*   terms    : the root's enumeration computed from the returned specification (<<>> if none)      *)
(*   again    : what asking for the specification once more, with no work in between, gives          *)
(* The restored copy must be indistinguishable from the original for all these observers.          *)
EXTENDS Naturals, Integers, Sequences, FiniteSets, SequencesExt, TLC
SeqSetR(s) == {s[i] : i \in 1..Len(s)}
PairClause(a, b) ==
  CASE a.packets # b.packets -> "RestoredGoesThroughTheSameWork"
    [] a.store # b.store -> "RestoredBuildsTheSameClassesAndLabels"
    [] a.empt # b.empt -> "RestoredRecordsTheSameEmptiness"
    [] SeqSetR(a.keys) # SeqSetR(b.keys) -> "RestoredBuildsTheSameRules"
    [] a.ver # b.ver -> "RestoredHasTheSameVerifiedSet"
    [] a.answers # b.answers -> "RestoredGivesTheSameAnswers"
    [] a.outcome # b.outcome -> "RestoredEndsTheSameWay"
    [] a.terms # b.terms -> "RestoredSpecificationEnumeratesTheSame"
    [] a.again # b.again -> "RestoredAnswersTheRepeatedRequestTheSame"
    [] a.outcome = "spec" /\ a.again # "spec" -> "SpecificationCanBeRequestedAgainWithoutFurtherWork"
    [] OTHER -> "ok"
\* the restored searcher equals the original at the fork (the library's own ==)
ForkClause(e) == IF e.equal = "T" THEN "ok" ELSE "RestoredEqualsOriginal"
\* interruption: nothing the queue handed out is lost.  handed / expanded are sequences of packets,
\* verified the labels verified at the end.
RECURSIVE IsSubsequence(_, _)
IsSubsequence(a, b) == IF a = <<>> THEN TRUE ELSE IF b = <<>> THEN FALSE
                       ELSE IF Head(a) = Head(b) THEN IsSubsequence(Tail(a), Tail(b)) ELSE IsSubsequence(a, Tail(b))
InterruptClause(e) ==
  CASE ~IsSubsequence(e.expanded, e.handed) -> "ExpandedWorkWasHandedOutInThatOrder"
    [] \E i \in 1..Len(e.handed) : e.handed[i] \notin SeqSetR(e.expanded) /\ e.handed[i].l \notin SeqSetR(e.verified)
         -> "NoHandedOutWorkIsLostAcrossCalls"
    [] Cardinality(SeqSetR(e.expanded)) # Len(e.expanded) -> "NoWorkExpandedTwice"
    [] OTHER -> "ok"
\* whether a specification is finally found does not depend on where the search was interrupted: classes whose
\* expansion is skipped are skipped only because they are already verified, so the interrupted-and-resumed search
\* ends with a specification exactly when the uninterrupted one does
SlicingClause(e) ==
  IF e.full \in {"spec", "none"} /\ e.resumed \in {"spec", "none"} /\ e.full # e.resumed
  THEN "ResumedSearchFindsASpecificationExactlyWhenTheUninterruptedOneDoes" ELSE "ok"
=============================================================================
