------------------------------ MODULE Trace_Spec ------------------------------
(* Batch trace monitor for what a search hands back (C01, C02, C17 final clause, C19).            *)
(*  {tid, classes:[name |-> class record of WordUniverse], te:[names], pack:[ids], events:[...]}   *)
(*   terms : c = class name, n, terms = <<<<params, count>>>> as computed from the specification   *)
(*   count : c, n, params, cnt = count_objects_of_size(n, **params)                                *)
(*   spec  : root, rules = rule descriptors (SpecValid.tla), stage = "raw" | "final"               *)
(*   expand: see Expand.tla                                                                        *)
EXTENDS WordUniverse, SpecValid, Expand, Json, IOUtils
Traces == ndJsonDeserialize(IOEnv.TRACE_FILE)
VARIABLES t, l
vars == <<t, l>>
CountIn(terms, p) == LET m == {x \in terms : x[1] = p} IN IF m = {} THEN 0 ELSE (CHOOSE x \in m : TRUE)[2]
Clause(tr, e) ==
  CASE e.op = "terms" ->
         IF ObservedTerms(e.terms) = TrueTerms(tr.classes[e.c], e.n) THEN "ok" ELSE "CountsEqualTrueEnumeration"
    [] e.op = "count" ->
         IF e.cnt = CountIn(TrueTerms(tr.classes[e.c], e.n), e.params) THEN "ok" ELSE "CountForParametersEqualsTrueNumber"
    [] e.op = "spec" -> SpecClause(e.rules, e.root, SeqSetS(tr.te), SeqSetS(tr.pack))
    [] e.op = "expand" -> ExpandClause(e)
    [] e.op = "expand_one" -> ExpandOneClause(e)
    [] e.op = "outcome" -> IF e.kind \in {"spec", "none", "timeout", "budget"} THEN "ok" ELSE "SearchRaised:" \o e.kind
    [] OTHER -> "UnknownEvent"
Init == t = 1 /\ l = 1 /\ TLCSet(1, 0)
Step == /\ t <= Len(Traces) /\ l <= Len(Traces[t].events)
        /\ LET c == Clause(Traces[t], Traces[t].events[l]) IN
             IF c = "ok" THEN l' = l + 1 /\ t' = t
             ELSE PrintT(<<"REJECT", Traces[t].tid, l, c>>) /\ t' = t + 1 /\ l' = 1
Finish == /\ t <= Len(Traces) /\ l > Len(Traces[t].events)
          /\ TLCSet(1, TLCGet(1) + 1) /\ t' = t + 1 /\ l' = 1
Next == Step \/ Finish
Spec == Init /\ [][Next]_vars
Post == PrintT(<<"ACCEPTED", TLCGet(1), "OF", Len(Traces)>>)
=============================================================================
