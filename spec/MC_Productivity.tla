--------------------------- MODULE MC_Productivity ---------------------------
(* Every insertion history of at most MaxRules rules over a small alphabet (classes 0..NC-1,    *)
(* arity 0..MaxArity with repeated children, shifts -MaxShift..MaxShift).                        *)
(* Checked: Kleene = chaotic iteration; the cap is adequate (K and 2K agree); the answer only    *)
(* grows when rules are added.  Exported: every maximal history (for replay into TableMethod).   *)
EXTENDS Productivity, TLC, Json
CONSTANTS NC, MaxShift, MaxArity, MaxRules, EmitMode
Classes == 0..(NC - 1)
Shifts == (-MaxShift)..MaxShift
RuleAlphabet == UNION {{[p |-> p, ch |-> ch, sh |-> sh] : p \in Classes, ch \in [1..a -> Classes], sh \in [1..a -> Shifts]} : a \in 0..MaxArity}
VARIABLES hist
Init == hist = <<>>
Next == Len(hist) < MaxRules /\ \E r \in RuleAlphabet : hist' = Append(hist, r)
Spec == Init /\ [][Next]_hist
Rules(h) == ToSet(h)
Ans(h) == Answer(Rules(h), Classes)
KleeneEqChaotic == LET K == Cap(Rules(hist)) IN
   LfpK(Zero(Classes), Rules(hist), Classes, K) = LfpC(Zero(Classes), Rules(hist), Classes, K)
CapAdequate == LET K == Cap(Rules(hist)) IN AnswerK(Rules(hist), Classes, K) = AnswerK(Rules(hist), Classes, 2 * K)
Monotone == [][\A c \in Classes : Le(Ans(hist)[c], Ans(hist')[c])]_hist
EmitFinal == (EmitMode = "final" /\ Len(hist) = MaxRules) => PrintT(<<"H", ToJson(hist)>>)
=============================================================================
