-------------------------------- MODULE Bisim --------------------------------
(* Structural isomorphism of two specifications, defined from scratch as a greatest fixed point     *)
(* (the independent judge of "the two returned specifications are isomorphic", C13, and the          *)
(* reference against which the library's own isomorphism test is compared, C12).                     *)
(*                                                                                                  *)
(* A specification is a function  class name -> node,  node =                                         *)
(*   [eq |-> the rule is an equivalence (rule or path): the class stands for its only child,          *)
(*    k |-> kind of the rule's constructor ("DisjointUnion", "CartesianProduct", "Complement",        *)
(*          "Quotient", ...; "V" for a verification rule),                                             *)
(*    ch |-> <<children names>>, atom |-> is an atom, sz |-> size of the atom's object]               *)
(* and a set of names of (truly) empty classes, which are ignored as children.                        *)
(* Two classes are related iff, after stepping over equivalences, their rules have the same kind       *)
(* and the same number of non-empty children, and the children can be paired off in related pairs     *)
(* (in any order for unions and products; the first child - the class something is taken away from -  *)
(* in place for complements and quotients); two leaves are related iff both are atoms of one size.    *)
(* Recursion is read coinductively: the greatest such relation.  At every stage of the iteration the  *)
(* relation is "has the same unfolding to depth k", hence difunctional, so a pairing exists iff the   *)
(* greedy one succeeds - no search over permutations is needed.                                        *)
EXTENDS Naturals, Sequences, FiniteSets, FiniteSetsExt, TLC
DropAtB(sq, i) == SubSeq(sq, 1, i - 1) \o SubSeq(sq, i + 1, Len(sq))
\* the class a class stands for: equivalences are stepped over (a chain of them is one equivalence path in a specification)
RECURSIVE CurrF(_, _, _)
CurrF(sp, c, fuel) == IF fuel = 0 \/ c \notin DOMAIN sp \/ ~sp[c].eq THEN c ELSE CurrF(sp, sp[c].ch[1], fuel - 1)
CurrB(sp, c) == CurrF(sp, c, Cardinality(DOMAIN sp))
NEB(sp, E, c) == SelectSeq(sp[c].ch, LAMBDA x : x \notin E)
Ordered(k) == k \in {"Complement", "Quotient"}
LocalB(spA, EA, spB, EB, a, b) ==
  LET A == CurrB(spA, a)  B == CurrB(spB, b) IN
  /\ A \in DOMAIN spA /\ B \in DOMAIN spB
  /\ Len(NEB(spA, EA, A)) = Len(NEB(spB, EB, B))
  /\ IF spA[A].ch = <<>> /\ spB[B].ch = <<>> THEN spA[A].atom /\ spB[B].atom /\ spA[A].sz = spB[B].sz
     ELSE spA[A].ch # <<>> /\ spB[B].ch # <<>> /\ spA[A].k = spB[B].k
RECURSIVE Greedy(_, _, _)
Greedy(as, bs, R) ==
  IF as = <<>> THEN bs = <<>>
  ELSE LET js == {j \in 1..Len(bs) : <<Head(as), bs[j]>> \in R} IN
       IF js = {} THEN FALSE ELSE Greedy(Tail(as), DropAtB(bs, Min(js)), R)
ChildrenMatch(spA, EA, spB, EB, a, b, R) ==
  LET A == CurrB(spA, a)  B == CurrB(spB, b)
      as == NEB(spA, EA, A)  bs == NEB(spB, EB, B) IN
  IF Ordered(spA[A].k) /\ as # <<>>
  THEN bs # <<>> /\ <<as[1], bs[1]>> \in R /\ Greedy(Tail(as), Tail(bs), R)
  ELSE Greedy(as, bs, R)
RECURSIVE GfpB(_, _, _, _, _)
GfpB(spA, EA, spB, EB, R) ==
  LET R2 == TLCEval({p \in R : ChildrenMatch(spA, EA, spB, EB, p[1], p[2], R)}) IN
  IF R2 = R THEN R ELSE GfpB(spA, EA, spB, EB, R2)
Bisimulation(spA, EA, spB, EB) ==
  GfpB(spA, EA, spB, EB, TLCEval({p \in (DOMAIN spA) \X (DOMAIN spB) : LocalB(spA, EA, spB, EB, p[1], p[2])}))
Bisimilar(spA, EA, ra, spB, EB, rb) == <<ra, rb>> \in Bisimulation(spA, EA, spB, EB)
\* the relation is a bisimulation in the textbook sense (checked by MC_Bisim on small systems): related classes have
\* locally compatible rules and their children can be paired off inside the relation
IsBisimulation(spA, EA, spB, EB, R) ==
  \A p \in R : LocalB(spA, EA, spB, EB, p[1], p[2]) /\ ChildrenMatch(spA, EA, spB, EB, p[1], p[2], R)
=============================================================================
