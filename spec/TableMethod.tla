---------------------------- MODULE TableMethod ----------------------------
(* Implementation-shaped specification of the forest table method (rule_db/forest.py, class       *)
(* TableMethod with its Function): the incremental algorithm with per-rule shift vectors, the      *)
(* "gap" in the value distribution, and the set of rules held back above the gap.                  *)
(* Every iteration of _process_queue is one action, so that TLC explores every order in which       *)
(* Python's set iteration may release the held-back rules.  MC_TableMethod checks the refinement     *)
(*        quiescent state  =>  function = least fixed point of Productivity.tla                      *)
(* for every insertion history over a small alphabet: the design-level half of C03 (the other half,  *)
(* code = least fixed point, is decided on recorded executions by Trace_Table).                      *)
(*                                                                                                  *)
(* INF stands for Python's None (infinitely many terms / a shift that no longer matters).            *)
EXTENDS Productivity, TLC
CONSTANT INF
VARIABLES rules,    \* sequence of inserted rule keys [p, ch, sh]
          shifts,   \* sequence of current shift vectors (entries Int or INF), one per rule
          fn,       \* function class -> Nat \cup {INF}   (classes never touched: 0)
          gapSize,  \* max |shift| seen so far (at least 1)
          using,    \* class -> sequence of <<rule index, child index>> (rules using the class to pump)
          pumping,  \* class -> sequence of rule indices (rules pumping the class)
          queue,    \* processing queue of rule indices (a deque)
          gap,      \* <<lo, hi>> the current gap
          holding,  \* set of rule indices holding extra terms (their parent is above the gap)
          pc        \* "idle" | "run"   (inside _process_queue?)
tmvars == <<rules, shifts, fn, gapSize, using, pumping, queue, gap, holding, pc>>

Val(f, c) == IF c \in DOMAIN f THEN f[c] ELSE 0
Upd(f, c, v) == [x \in DOMAIN f \cup {c} |-> IF x = c THEN v ELSE f[x]]
Get(m, c) == IF c \in DOMAIN m THEN m[c] ELSE <<>>
RuleClasses(rs) == UNION {{rs[i].p} \cup {rs[i].ch[j] : j \in 1..Len(rs[i].ch)} : i \in 1..Len(rs)}
\* classes the Function object has materialised: every index up to the largest one touched
Seen(rs) == IF RuleClasses(rs) = {} THEN {} ELSE 0..Max(RuleClasses(rs))
\* Function.preimage_gap(length): smallest k such that no seen class has a finite value in k..k+length-1
FiniteVals(f, rs) == {Val(f, c) : c \in {c \in Seen(rs) : Val(f, c) # INF}}
PreimageGap(f, rs, len) ==
  LET vals == FiniteVals(f, rs)
      top == IF vals = {} THEN 0 ELSE Max(vals) + 1
  IN Min({k \in 0..top : \A v \in k..(k + len - 1) : v \notin vals})
CanGive(sv) == \A i \in 1..Len(sv) : sv[i] = INF \/ sv[i] > 0

TMInit == /\ rules = <<>> /\ shifts = <<>> /\ fn = <<>> /\ gapSize = 1 /\ using = <<>> /\ pumping = <<>>
          /\ queue = <<>> /\ gap = <<1, 1>> /\ holding = {} /\ pc = "idle"

\* _correct_gap, as a function of the state pieces it touches: returns [gap, queue, holding];
\* the order in which the held-back rules are appended is any order (set iteration)
CorrectGapResults(f, rs, gs, g, q, h) ==
  LET k == PreimageGap(f, rs, gs)  ng == <<k, k + gs - 1>> IN
  IF ng[2] > g[2]
  THEN {[gap |-> ng, queue |-> q \o perm, holding |-> {}] : perm \in {s \in [1..Cardinality(h) -> h] : \A i, j \in 1..Cardinality(h) : i # j => s[i] # s[j]}}
  ELSE {[gap |-> ng, queue |-> q, holding |-> h]}

\* add_rule_key(r) up to the call of _process_queue
AddRuleKey(r) ==
  /\ pc = "idle"
  /\ LET idx == Len(rules) + 1
         rs2 == Append(rules, r)
         pv == Val(fn, r.p)
         sv == IF pv = INF THEN [i \in 1..Len(r.ch) |-> INF]
               ELSE [i \in 1..Len(r.ch) |-> IF Val(fn, r.ch[i]) = INF THEN INF ELSE Val(fn, r.ch[i]) + r.sh[i] - pv]
         mg == Max({0} \cup {Abs(r.sh[i]) : i \in 1..Len(r.sh)})
         gs2 == IF mg > gapSize THEN mg ELSE gapSize
     IN /\ rules' = rs2 /\ shifts' = Append(shifts, sv) /\ gapSize' = gs2
        /\ \E cg \in (IF mg > gapSize THEN CorrectGapResults(fn, rs2, gs2, gap, queue, holding)
                       ELSE {[gap |-> gap, queue |-> queue, holding |-> holding]}) :
              /\ gap' = cg.gap /\ holding' = cg.holding
              /\ IF pv # INF
                 THEN /\ pumping' = Upd(pumping, r.p, Append(Get(pumping, r.p), idx))
                      /\ using' = LET add(u, i) == IF Val(fn, r.ch[i]) # INF THEN Upd(u, r.ch[i], Append(Get(u, r.ch[i]), <<idx, i>>)) ELSE u
                                      RECURSIVE go(_, _)
                                      go(u, i) == IF i > Len(r.ch) THEN u ELSE go(add(u, i), i + 1)
                                  IN go(using, 1)
                      /\ queue' = Append(cg.queue, idx)
                 ELSE /\ pumping' = pumping /\ using' = using /\ queue' = cg.queue
        /\ fn' = fn /\ pc' = "run"

\* one iteration of the inner loop of _process_queue: pop a rule; if it can give a term, _increase_value
PopQueue ==
  /\ pc = "run" /\ queue # <<>>
  /\ LET idx == Head(queue)  q1 == Tail(queue)  c == rules[idx].p  cv == Val(fn, c) IN
     IF ~CanGive(shifts[idx]) \/ cv = INF
     THEN /\ queue' = q1 /\ UNCHANGED <<rules, shifts, fn, gapSize, using, pumping, gap, holding, pc>>
     ELSE IF cv > gap[2]
     THEN /\ holding' = holding \cup {idx} /\ queue' = q1
          /\ UNCHANGED <<rules, shifts, fn, gapSize, using, pumping, gap, pc>>
     ELSE LET f2 == Upd(fn, c, cv + 1)
              gstart == PreimageGap(f2, rules, gapSize) IN
          \E cg \in (IF gap[1] # gstart THEN CorrectGapResults(f2, rules, gapSize, gap, q1, holding)
                     ELSE {[gap |-> gap, queue |-> q1, holding |-> holding]}) :
            LET pumpIdx == Get(pumping, c)
                \* shifts of the rules pumping c go down by one
                s1 == [i \in 1..Len(shifts) |->
                         IF \E j \in 1..Len(pumpIdx) : pumpIdx[j] = i
                         THEN [k \in 1..Len(shifts[i]) |-> IF shifts[i][k] = INF THEN INF ELSE shifts[i][k] - 1]
                         ELSE shifts[i]]
                qa == cg.queue \o SelectSeq(pumpIdx, LAMBDA i : CanGive(s1[i]))
                \* shifts of the rules using c go up by one at that child, one after the other
                useIdx == Get(using, c)
                RECURSIVE step(_, _, _)
                step(sv, q, j) ==
                  IF j > Len(useIdx) THEN [s |-> sv, q |-> q]
                  ELSE LET ri == useIdx[j][1]  ci == useIdx[j][2]
                           sv2 == [sv EXCEPT ![ri][ci] = @ + 1]
                       IN step(sv2, IF CanGive(sv2[ri]) THEN Append(q, ri) ELSE q, j + 1)
                fin == step(s1, qa, 1)
            IN /\ fn' = f2 /\ shifts' = fin.s /\ queue' = fin.q /\ gap' = cg.gap /\ holding' = cg.holding
               /\ UNCHANGED <<rules, gapSize, using, pumping, pc>>

\* outer loop, queue empty: release one held-back rule (any one) and set its parent to infinity
SetInfinite ==
  /\ pc = "run" /\ queue = <<>> /\ holding # {}
  /\ \E idx \in holding :
       LET c == rules[idx].p IN
       IF Val(fn, c) = INF
       THEN /\ holding' = holding \ {idx} /\ UNCHANGED <<rules, shifts, fn, gapSize, using, pumping, queue, gap, pc>>
       ELSE LET pumpIdx == Get(pumping, c)
                isPump(ri) == \E j \in 1..Len(pumpIdx) : pumpIdx[j] = ri
                u1 == [x \in DOMAIN using |-> SelectSeq(using[x], LAMBDA e : ~isPump(e[1]))]
                useIdx == Get(u1, c)
                RECURSIVE step(_, _, _)
                step(sv, q, j) ==
                  IF j > Len(useIdx) THEN [s |-> sv, q |-> q]
                  ELSE LET ri == useIdx[j][1]  ci == useIdx[j][2]
                           sv2 == [sv EXCEPT ![ri][ci] = INF]
                       IN step(sv2, IF CanGive(sv2[ri]) THEN Append(q, ri) ELSE q, j + 1)
                fin == step(shifts, queue, 1)
            IN /\ fn' = Upd(fn, c, INF) /\ holding' = holding \ {idx}
               /\ pumping' = Upd(pumping, c, <<>>) /\ using' = Upd(u1, c, <<>>)
               /\ shifts' = fin.s /\ queue' = fin.q
               /\ UNCHANGED <<rules, gapSize, gap, pc>>

\* _process_queue returns
Quiesce == /\ pc = "run" /\ queue = <<>> /\ holding = {} /\ pc' = "idle"
           /\ UNCHANGED <<rules, shifts, fn, gapSize, using, pumping, queue, gap, holding>>

\* ---- refinement: at quiescence the function is the least fixed point ------------------------
RuleSetOf(rs) == {rs[i] : i \in 1..Len(rs)}
Reported(f, C) == [c \in C |-> IF Val(f, c) = INF THEN -1 ELSE Val(f, c)]
RefinesLfp(C) == pc = "idle" => Reported(fn, C) = Answer(RuleSetOf(rules), C)
\* in every state (also mid-processing) the function is below the least fixed point: terms are never invented
BelowLfp(C) == LET a == Answer(RuleSetOf(rules), C) IN \A c \in C : Le(Reported(fn, C)[c], a[c])
=============================================================================
