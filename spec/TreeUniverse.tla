----------------------------- MODULE TreeUniverse -----------------------------
(* Ground truth of the fixture universe T (harness/universes/trees.py): the classes of parse trees of a  *)
(* small system of equations with one rule per class.  A system is a sequence of nodes, node c =          *)
(*   [k |-> "U" | "P" | "A", ch |-> <<children class ids>>, sz |-> size of the atom's object]              *)
(* An object is <<tag, class, int, <<subobjects>> >>:                                                       *)
(*   <<"a", c, size, <<>> >>,  <<"u", c, branch, <<sub>> >>,  <<"p", c, 0, <<sub1, .., subk>> >>.             *)
(* Productive systems only (Productive below): then every class has finitely many objects of each size,     *)
(* no class is empty, and the recursion of TObjs is well founded.                                           *)
EXTENDS Naturals, Integers, Sequences, FiniteSets, FiniteSetsExt, TLC
PR == INSTANCE Productivity
INF == 1000000
ClassesT(sys) == 1..Len(sys)
\* minimum object size per class: least fixed point from "no object known" (INF)
RECURSIVE MinIter(_, _, _)
MinIter(sys, ms, fuel) ==
  LET SumSeq(q) == FoldSet(LAMBDA i, acc : IF acc >= INF \/ ms[q[i]] >= INF THEN INF ELSE acc + ms[q[i]], 0, 1..Len(q))
      ms2 == [c \in ClassesT(sys) |->
                CASE sys[c].k = "A" -> sys[c].sz
                  [] sys[c].k = "U" -> Min({INF} \cup {ms[sys[c].ch[i]] : i \in 1..Len(sys[c].ch)})
                  [] OTHER -> SumSeq(sys[c].ch)]
  IN IF fuel = 0 \/ ms2 = ms THEN ms2 ELSE MinIter(sys, TLCEval(ms2), fuel - 1)
MinSizes(sys) == MinIter(sys, [c \in ClassesT(sys) |-> INF], Len(sys) + 2)
\* the forest keys of the system: unions shift nothing, factor i of a product is shifted by the minimum sizes of the others
KeysT(sys) ==
  LET ms == MinSizes(sys) IN
  {[p |-> c, ch |-> sys[c].ch,
    sh |-> [i \in 1..Len(sys[c].ch) |->
              IF sys[c].k = "P" THEN FoldSet(LAMBDA j, acc : acc + ms[sys[c].ch[j]], 0, (1..Len(sys[c].ch)) \ {i}) ELSE 0]]
   : c \in ClassesT(sys)}
Productive(sys) ==
  /\ \A c \in ClassesT(sys) : sys[c].k # "A" => sys[c].ch # <<>>
  /\ \A c \in ClassesT(sys) : MinSizes(sys)[c] < INF
  /\ LET a == PR!Answer(KeysT(sys), ClassesT(sys)) IN \A c \in ClassesT(sys) : a[c] = -1
\* all ways of writing n as an ordered sum of k naturals
RECURSIVE Splits(_, _)
Splits(n, k) == IF k = 0 THEN (IF n = 0 THEN {<<>>} ELSE {})
                ELSE UNION {{<<f>> \o r : r \in Splits(n - f, k - 1)} : f \in 0..n}
RECURSIVE TObjsM(_, _, _, _), Tuples(_, _, _, _, _)
\* tuples of objects of the classes chs with the sizes sp (componentwise)
Tuples(sys, ms, chs, sp, i) ==
  IF i > Len(chs) THEN {<<>>}
  ELSE LET heads == TObjsM(sys, ms, chs[i], sp[i]) IN
       IF heads = {} THEN {} ELSE {<<h>> \o t : h \in heads, t \in Tuples(sys, ms, chs, sp, i + 1)}
\* only splits that give every factor at least its minimum size are expanded: in a productive system the recursion then
\* strictly decreases (a class occurring below itself always loses at least one unit of size on the way)
TObjsM(sys, ms, c, n) ==
  LET r == sys[c] IN
  CASE r.k = "A" -> IF n = r.sz THEN {<<"a", c, r.sz, <<>> >>} ELSE {}
    [] r.k = "U" -> UNION {{<<"u", c, i, <<s>> >> : s \in TObjsM(sys, ms, r.ch[i], n)} : i \in {i \in 1..Len(r.ch) : ms[r.ch[i]] <= n}}
    [] OTHER -> UNION {{<<"p", c, 0, t>> : t \in Tuples(sys, ms, r.ch, sp, 1)}
                       : sp \in {sp \in Splits(n, Len(r.ch)) : \A i \in 1..Len(r.ch) : sp[i] >= ms[r.ch[i]]}}
TObjs(sys, c, n) == TObjsM(sys, MinSizes(sys), c, n)
=============================================================================
