----------------------------- MODULE Trace_Resume -----------------------------
(* Batch trace monitor for C17.  {tid, events:[{op, ...}]}                                        *)
(*   fork      : k (packets expanded before the save), equal ("T"/"F"/exception name)              *)
(*   pair      : a, b  observations of the original and of the restored copy after the same calls  *)
(*   interrupt : handed, expanded, verified  (a search interrupted by its time limit and resumed)  *)
(*   slicing   : full, resumed  (how the uninterrupted search and the interrupted-and-resumed one end) *)
EXTENDS Resume, Json, IOUtils
Traces == ndJsonDeserialize(IOEnv.TRACE_FILE)
VARIABLES t, l
vars == <<t, l>>
Clause(e) == CASE e.op = "fork" -> ForkClause(e)
               [] e.op = "pair" -> PairClause(e.a, e.b)
               [] e.op = "interrupt" -> InterruptClause(e)
               [] e.op = "slicing" -> SlicingClause(e)
               [] OTHER -> "UnknownEvent"
Init == t = 1 /\ l = 1 /\ TLCSet(1, 0)
Step == /\ t <= Len(Traces) /\ l <= Len(Traces[t].events)
        /\ LET c == Clause(Traces[t].events[l]) IN
             IF c = "ok" THEN l' = l + 1 /\ t' = t
             ELSE PrintT(<<"REJECT", Traces[t].tid, l, c>>) /\ t' = t + 1 /\ l' = 1
Finish == /\ t <= Len(Traces) /\ l > Len(Traces[t].events)
          /\ TLCSet(1, TLCGet(1) + 1) /\ t' = t + 1 /\ l' = 1
Next == Step \/ Finish
Spec == Init /\ [][Next]_vars
Post == PrintT(<<"ACCEPTED", TLCGet(1), "OF", Len(Traces)>>)
=============================================================================
