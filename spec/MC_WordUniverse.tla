--------------------------- MODULE MC_WordUniverse ---------------------------
(* The two definitions of the plain counts agree (brute force vs dynamic programming) for every   *)
(* class of a small family and every size up to N.                                                 *)
EXTENDS WordUniverse, TLC
CONSTANTS K, N, MaxPatLen, MaxPre
Letters == 1..K
WordsUpTo(m) == UNION {WordsOfLen(K, i) : i \in 0..m}
PatWords == UNION {WordsOfLen(K, i) : i \in 1..MaxPatLen}
VARIABLES cls
Init == \E pre \in WordsUpTo(MaxPre), p1 \in PatWords, p2 \in PatWords, jp \in BOOLEAN :
          cls = [pre |-> pre, pats |-> <<p1, p2>>, k |-> K, jp |-> jp, stats |-> <<>>]
Next == UNCHANGED cls
Spec == Init /\ [][Next]_cls
CountsAgree == \A n \in 0..N : TrueCount(cls, n) = DPCount(cls, n)
EmptyIffNoObjects == TrulyEmpty(cls) <=> \A n \in 0..N : Objs(cls, n) = {}
=============================================================================
