CONSTANTS NC = 2 MaxShift = 1 N = 2
SPECIFICATION Spec
INVARIANT NoCircularWait
CHECK_DEADLOCK FALSE
