------------------------------ MODULE MC_Prune ------------------------------
(* Every rule dictionary over labels 0..NL-1 with at most MaxPer rules per label and arity      *)
(* <= MaxArity, and every root: the two definitions of the greatest fixed point agree, the two   *)
(* definitions of iterative derivability agree, and a proof tree exists exactly when the root    *)
(* survives pruning.  Every dictionary is exported for replay into the real functions.           *)
EXTENDS Prune, Json
CONSTANTS NL, MaxPer, MaxArity, EmitMode
Labels == 0..(NL - 1)
NonDecr(r) == \A i \in 1..(Len(r) - 1) : r[i] <= r[i + 1]
AllRules == UNION {{r \in [1..a -> Labels] : NonDecr(r)} : a \in 0..MaxArity}
RuleSets == {S \in SUBSET AllRules : Cardinality(S) <= MaxPer}
VARIABLES rd, root
Init == rd \in [Labels -> RuleSets] /\ root \in Labels
Next == UNCHANGED <<rd, root>>
Spec == Init /\ [][Next]_<<rd, root>>
Dict == [k \in NonEmptyKeys(rd) |-> rd[k]]          \* as Python sees it: no empty entries
GfpAgrees == Gfp(Dict) = GfpDef(Dict)
IterAgrees == IterDerivableSet(Dict, root) = IterDef(Dict, root)
TreeIffSurvives == HasTree(Pruned(Dict), root) <=> root \in Gfp(Dict)
IterImpliesGfpWithRoot == IterDerivable(Dict, root) => root \in Gfp(Dict)
AsList == LET ks == SetToSeq(DOMAIN Dict) IN [i \in 1..Len(ks) |-> [k |-> ks[i], rs |-> SetToSeq(Dict[ks[i]])]]
Emit == (EmitMode = "all" /\ root = 0) => PrintT(<<"H", ToJson(AsList)>>)
=============================================================================
