---------------------------- MODULE Productivity ----------------------------
(* "Terms computable": the fixed-point analysis that decides whether a set of rules is          *)
(* productive (forest rule database, rule_db/forest.py; also the independent judge of C02/C11). *)
(*                                                                                              *)
(* A rule is a record [p |-> parent, ch |-> <<children>>, sh |-> <<shifts>>] (Len(ch)=Len(sh)). *)
(* f[c] in Nat is the number of terms (sizes 0..f[c]-1) of class c known to be computable.      *)
(* Term number n of the parent is computable by a rule if every child i can supply its terms up *)
(* to size n - sh[i], i.e. f[child_i] + sh[i] - n > 0, or child i is completely computable.     *)
(* The answer is the least fixed point of "add every term that some rule can compute";          *)
(* a value >= K stands for infinity ("pumping").                                                 *)
EXTENDS Naturals, Integers, Sequences, FiniteSets, FiniteSetsExt, SequencesExt, TLC

Abs(x) == IF x < 0 THEN -x ELSE x
ShiftBound(rules) == Max({0} \cup UNION {{Abs(r.sh[i]) : i \in 1..Len(r.sh)} : r \in rules})
ClassesOf(rules) == {r.p : r \in rules} \cup UNION {{r.ch[i] : i \in 1..Len(r.ch)} : r \in rules}
\* Adequate cap: with gap g = max |shift| (at least 1) and n classes, a finite value never exceeds n*g
Cap(rules) == LET g == Max({1, ShiftBound(rules)}) IN Cardinality(ClassesOf(rules)) * g + g + 2

CanFire(f, r, K) ==
  /\ f[r.p] < K
  /\ \A i \in 1..Len(r.ch) : f[r.ch[i]] >= K \/ f[r.ch[i]] + r.sh[i] - f[r.p] > 0

\* Kleene iteration: all parents that can gain a term gain one, simultaneously
RECURSIVE LfpK(_, _, _, _)
LfpK(f, rules, C, K) ==
  LET ps == {r.p : r \in {r \in rules : CanFire(f, r, K)}} IN
  \* TLCEval: TLC would otherwise keep the new function as an unevaluated expression over the old one, and every later
  \* application would walk down the whole chain of iterations (quadratic)
  IF ps = {} THEN f ELSE LfpK(TLCEval([c \in C |-> IF c \in ps THEN f[c] + 1 ELSE f[c]]), rules, C, K)
\* Chaotic iteration: one (arbitrary but fixed) enabled rule at a time
RECURSIVE LfpC(_, _, _, _)
LfpC(f, rules, C, K) ==
  LET en == {r \in rules : CanFire(f, r, K)} IN
  IF en = {} THEN f
  ELSE LET r == CHOOSE x \in en : TRUE IN LfpC([f EXCEPT ![r.p] = @ + 1], rules, C, K)

Zero(C) == TLCEval([c \in C |-> 0])
\* answer over the class set C (a superset of the classes mentioned), values >= K reported as -1
Norm(f, K) == [c \in DOMAIN f |-> IF f[c] >= K THEN -1 ELSE f[c]]
AnswerK(rules, C, K) == Norm(LfpK(Zero(C), rules, C, K), K)
Answer(rules, C) == AnswerK(rules, C, Cap(rules))
Pumping(rules, C) == {c \in C : Answer(rules, C)[c] = -1}
\* order on answers: -1 is top
Le(x, y) == y = -1 \/ (x # -1 /\ x <= y)
=============================================================================
