------------------------------- MODULE Series -------------------------------
(* Truncated multivariate power series with integer coefficients (C20).                            *)
(* A series over the variable list vars = <<"x", ...>> is a set of <<exponent vector, coefficient>>  *)
(* pairs with distinct exponent vectors and non-zero coefficients; everything of x-degree > N is     *)
(* dropped.  Expressions arrive as ASTs                                                              *)
(*   [t |-> "int", v] | [t |-> "sym", v] | [t |-> "add", a |-> <<..>>] | [t |-> "mul", a |-> <<..>>]    *)
(*   | [t |-> "pow", a |-> <<base>>, e |-> n] | [t |-> "fn", c |-> class name, a |-> <<arguments>>]     *)
(* A function application F_c(a_0, a_1, ...) stands for the TRUE generating series of class c with   *)
(* x replaced by a_0 and the i-th statistic variable by a_i.                                          *)
EXTENDS WordUniverse, TLC
Zero == {}
NV(vars) == Len(vars)
UnitVec(vars, i) == [j \in 1..NV(vars) |-> IF j = i THEN 1 ELSE 0]
ZeroVec(vars) == [j \in 1..NV(vars) |-> 0]
Const(vars, k) == IF k = 0 THEN {} ELSE {<<ZeroVec(vars), k>>}
AddVec(u, v) == [j \in DOMAIN u |-> u[j] + v[j]]
Norm(pairs) ==  \* pairs: set of <<vec, coeff, tag>>; sum coefficients per vector, drop zeros
  LET vecs == {p[1] : p \in pairs}
      coef(v) == FoldSet(LAMBDA p, acc : acc + p[2], 0, {p \in pairs : p[1] = v})
  IN {<<v, coef(v)>> : v \in {v \in vecs : coef(v) # 0}}
SAdd(P, Q) == Norm({<<p[1], p[2], 1>> : p \in P} \cup {<<q[1], q[2], 2>> : q \in Q})
SMul(P, Q, N) == Norm({<<AddVec(p[1], q[1]), p[2] * q[2], <<p[1], q[1]>>>> : p \in P, q \in Q} \cap
                      {t \in {<<AddVec(p[1], q[1]), p[2] * q[2], <<p[1], q[1]>>>> : p \in P, q \in Q} : t[1][1] <= N})
RECURSIVE SPow(_, _, _, _)
SPow(P, e, N, vars) == IF e = 0 THEN Const(vars, 1) ELSE SMul(P, SPow(P, e - 1, N, vars), N)
\* the true series of class c (record of WordUniverse) in its own variables x, k1..kr, as terms per size
TermsUpTo(c, N) == UNION {{<<n, t[1], t[2]>> : t \in TrueTerms(c, n)} : n \in 0..N}
RECURSIVE Eval(_, _, _, _)
RECURSIVE ProdArgs(_, _, _, _, _)
\* product over i of args[i]^(exps[i])
ProdArgs(args, exps, i, N, vars) ==
  IF i > Len(args) THEN Const(vars, 1)
  ELSE SMul(SPow(args[i], exps[i], N, vars), ProdArgs(args, exps, i + 1, N, vars), N)
Apply(c, args, N, vars) ==
  \* sum over the true terms <<n, params, count>> of count * args[1]^n * prod args[i+1]^params[i]
  LET terms == TermsUpTo(c, N)
      one(t) == SMul(Const(vars, t[3]), ProdArgs(args, <<t[1]>> \o t[2], 1, N, vars), N)
  IN Norm(UNION {{<<p[1], p[2], t>> : p \in one(t)} : t \in terms})
Eval(ast, classes, N, vars) ==
  CASE ast.t = "int" -> Const(vars, ast.v)
    [] ast.t = "sym" -> {<<UnitVec(vars, CHOOSE i \in 1..NV(vars) : vars[i] = ast.v), 1>>}
    [] ast.t = "add" -> FoldSeq(LAMBDA x, acc : SAdd(Eval(x, classes, N, vars), acc), Zero, ast.a)
    [] ast.t = "mul" -> FoldSeq(LAMBDA x, acc : SMul(Eval(x, classes, N, vars), acc, N), Const(vars, 1), ast.a)
    [] ast.t = "pow" -> SPow(Eval(ast.a[1], classes, N, vars), ast.e, N, vars)
    [] ast.t = "fn"  -> Apply(classes[ast.c], [i \in 1..Len(ast.a) |-> Eval(ast.a[i], classes, N, vars)], N, vars)
\* an equation lhs = rhs, given as the numerator of lhs - rhs: it must vanish up to order N
EquationClause(e, classes) ==
  IF Eval(e.num, classes, e.N, e.vars) = Zero THEN "ok" ELSE "EquationSatisfiedByTheTrueSeriesCoefficientByCoefficient"
\* closed form P/Q (integer coefficient lists, constant term first): Q * C = P up to order M, C the true counts
Coef(s, i) == IF i + 1 <= Len(s) THEN s[i + 1] ELSE 0
ClosedFormClause(e, c) ==
  LET C == [n \in 0..e.M |-> DPCount(c, n)]
      conv(n) == FoldSet(LAMBDA i, acc : acc + Coef(e.Q, i) * C[n - i], 0, 0..n)
  IN IF \A n \in 0..e.M : conv(n) = Coef(e.P, n) THEN "ok" ELSE "ClosedFormCoefficientsEqualTheCountsAtEveryOrder"
=============================================================================
