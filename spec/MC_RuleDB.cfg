CONSTANTS NL = 3 MaxRules = 2 EmitMode = "final"
SPECIFICATION Spec
INVARIANT IterImpliesRec
INVARIANT EmitFinal
PROPERTY MonotoneRec
CHECK_DEADLOCK FALSE
