------------------------------ MODULE SpecValid ------------------------------
(* What makes a returned specification valid (C02): closed, one rule per class, genuine,        *)
(* productive.  A specification is a sequence of rule descriptors; classes are opaque names.     *)
(* Rule descriptor (uniform record; derived forms nest the rule they were derived from):         *)
(*   form      : "rule" | "verification" | "equiv" | "reverse" | "path"                           *)
(*   parent, children, shifts : as the rule object reports them                                   *)
(*   strat     : id of the rule's strategy;  offered : ids of the pack elements that offer it     *)
(*   reapplies, re_children : result of re-applying the strategy to the (original) parent class   *)
(*   idx       : child index of a reverse rule;  orig : <<descriptor>> of the rule it derives from *)
(*   rules     : the chain of an equivalence path                                                  *)
EXTENDS Productivity, TLC
SeqSetS(s) == {s[i] : i \in 1..Len(s)}
Lhs(spec) == {spec[i].parent : i \in 1..Len(spec)}
Rhs(spec) == UNION {SeqSetS(spec[i].children) : i \in 1..Len(spec)}
DropAt(s, i) == SubSeq(s, 1, i - 1) \o SubSeq(s, i + 1, Len(s))
NonEmptyOf(s, te) == SelectSeq(s, LAMBDA c : c \notin te)

\* ---- genuineness of one rule (recursive over derived forms) -------------------------------
RECURSIVE GenuineClause(_, _, _)
GenuineClause(d, te, packids) ==
  CASE d.empty_strategy ->
         IF d.parent \in te /\ d.children = <<>> THEN "ok" ELSE "EmptyRuleOnlyForTrulyEmptyClass"
    [] d.form = "rule" ->
         IF ~d.reapplies THEN "RuleStrategyAppliesToItsClass"
         ELSE IF d.re_children # d.children THEN "RuleIsWhatItsStrategyProducesWhenReapplied"
         ELSE IF d.offered = <<>> \/ ~(SeqSetS(d.offered) \subseteq packids) THEN "RuleStrategyComesFromThePack"
         ELSE "ok"
    [] d.form = "verification" ->
         IF ~d.reapplies THEN "VerificationStrategyVerifiesItsClass"
         ELSE IF d.offered = <<>> \/ ~(SeqSetS(d.offered) \subseteq packids) THEN "RuleStrategyComesFromThePack"
         ELSE "ok"
    [] d.form = "equiv" ->
         IF Len(d.orig) # 1 THEN "EquivalenceFormHasAnOriginalRule"
         ELSE LET o == d.orig[1]  ne == NonEmptyOf(o.children, te) IN
              IF GenuineClause(o, te, packids) # "ok" THEN GenuineClause(o, te, packids)
              ELSE IF Len(ne) # 1 THEN "EquivalenceFormNeedsExactlyOneNonEmptyChild"
              ELSE IF d.parent # o.parent \/ d.children # ne THEN "EquivalenceFormKeepsParentAndTheNonEmptyChild"
              ELSE "ok"
    [] d.form = "reverse" ->
         IF Len(d.orig) # 1 THEN "ReverseFormHasAnOriginalRule"
         ELSE LET o == d.orig[1] IN
              IF GenuineClause(o, te, packids) # "ok" THEN GenuineClause(o, te, packids)
              ELSE IF ~(d.idx \in 0..(Len(o.children) - 1)) THEN "ReverseIndexInRange"
              ELSE IF d.parent # o.children[d.idx + 1] \/ d.children # <<o.parent>> \o DropAt(o.children, d.idx + 1)
                   THEN "ReverseFormIsTheRearrangementOfTheOriginal"
              ELSE "ok"
    [] d.form = "path" ->
         IF d.rules = <<>> THEN "PathIsNonEmpty"
         ELSE IF \E i \in 1..Len(d.rules) : GenuineClause(d.rules[i], te, packids) # "ok"
              THEN GenuineClause(d.rules[CHOOSE i \in 1..Len(d.rules) : GenuineClause(d.rules[i], te, packids) # "ok"], te, packids)
         ELSE IF \E i \in 1..Len(d.rules) : Len(d.rules[i].children) # 1 THEN "PathLinksAreSingleChildRules"
         ELSE IF \E i \in 1..(Len(d.rules) - 1) : d.rules[i].children[1] # d.rules[i + 1].parent THEN "PathIsAChain"
         ELSE IF d.parent # d.rules[1].parent \/ d.children # d.rules[Len(d.rules)].children THEN "PathEndsMatch"
         ELSE "ok"
    [] OTHER -> "UnknownRuleForm"

\* ---- productivity judged from (parent, children, shifts) alone ------------------------------
Keys(spec, te) ==
  {[p |-> spec[i].parent, ch |-> spec[i].children, sh |-> spec[i].shifts] : i \in 1..Len(spec)}
  \cup {[p |-> c, ch |-> <<>>, sh |-> <<>>] : c \in Rhs(spec) \cap te}
ProductiveFor(spec, te) ==
  LET ks == Keys(spec, te)  C == ClassesOf(ks)  a == Answer(ks, C) IN \A c \in Lhs(spec) : a[c] = -1

\* ---- the whole property on one rule list ------------------------------------------------------
SpecClause(spec, root, te, packids) ==
  CASE root \notin Lhs(spec) -> "StartClassHasARule"
    [] \E i, j \in 1..Len(spec) : i # j /\ spec[i].parent = spec[j].parent -> "ExactlyOneRulePerClass"
    [] \E c \in Rhs(spec) : c \notin te /\ c \notin Lhs(spec) -> "EveryNonEmptyChildHasARule"
    [] \E i \in 1..Len(spec) : Len(spec[i].shifts) # Len(spec[i].children) -> "ShiftsMatchChildren"
    [] \E i \in 1..Len(spec) : GenuineClause(spec[i], te, packids) # "ok"
         -> GenuineClause(spec[CHOOSE i \in 1..Len(spec) : GenuineClause(spec[i], te, packids) # "ok"], te, packids)
    [] ~ProductiveFor(spec, te) -> "ProductiveByIndependentFixedPoint"
    [] OTHER -> "ok"
=============================================================================
