----------------------------- MODULE Trace_RuleDB -----------------------------
(* Batch trace monitor for C14: the default and the memory-saving rule database, fed the same     *)
(* rule insertions (lockstep shadows of a real search), observed after *every* insertion.         *)
(*  {tid, te:[labels of truly empty classes], root, iter, events:[{add, d, f}]}                    *)
(*   add = [s, e, pe, tw, ver]  the inserted rule: start label, end labels (as given), strategy    *)
(*         declared possibly_empty, rule two-way, rule is a verification rule                       *)
(*   d / f = observations of the default / memory-saving database:                                  *)
(*     keys     : the stored keys  <<[s, e]>> (iteration)                                           *)
(*     contains : <<[s, e, ans]>>  membership queries (stored and non-stored keys, any child order; *)
(*                ans in "T" | "F" | exception name)                                                *)
(*     ver      : is_verified for every label (0/1 vector)                                          *)
(*     spec     : has_specification ("T"/"F"/exception)                                             *)
(*     strat    : <<[s, e, got, ok]>> for every stored key of a non-empty class: the cleaned end    *)
(*                labels obtained by re-applying the strategy the database hands back               *)
(* Both must be behaviours of RuleDB.tla (the stored key set and the answer of has_specification   *)
(* are derived from the inserted rules by the specification) and must agree with each other.       *)
EXTENDS RuleDB, Json, IOUtils
Traces == ndJsonDeserialize(IOEnv.TRACE_FILE)
VARIABLES t, l, rules
vars == <<t, l, rules>>
SeqSet(s) == {s[i] : i \in 1..Len(s)}
SortedSeq(s) == SortSeq(s, LAMBDA a, b : a < b)
KeySet(ks) == {<<ks[i].s, SortedSeq(ks[i].e)>> : i \in 1..Len(ks)}
\* cleaned ends of an inserted rule: empty children of a possibly_empty strategy are dropped, the rest sorted
Clean(tr, a) == SortedSeq(SelectSeq(a.e, LAMBDA x : ~(a.pe /\ x \in SeqSet(tr.te))))
\* the model's stored rules after inserting a (RuleDB.tla: a set of [s, e, tw])
Insert(rs, tr, a) ==
  LET e == Clean(tr, a)  r == [s |-> a.s, e |-> e, tw |-> (a.tw /\ Len(e) = 1)] IN
  IF r.tw THEN (rs \ {x \in rs : ~x.tw /\ ((x.s = r.s /\ x.e = r.e) \/ (x.s = r.e[1] /\ x.e = <<r.s>>))}) \cup {r}
  ELSE IF \E x \in rs : x.s = r.s /\ x.e = r.e /\ x.tw THEN rs ELSE rs \cup {r}
ModelKeys(rs) == {<<r.s, r.e>> : r \in rs}
\* the self rule (a, <<a>>) may or may not be kept (the code's filter for it never fires): tolerated
SelfKeys(rs) == {k \in ModelKeys(rs) : k[2] = <<k[1]>>}
FlavourClause(tr, rs, o, name) ==
  LET ks == KeySet(o.keys) IN
  CASE \E i \in 1..Len(o.contains) : o.contains[i].ans \notin {"T", "F"} -> name \o ":MembershipQueryIsTotal"
    [] \E i \in 1..Len(o.contains) : (o.contains[i].ans = "T") # (<<o.contains[i].s, SortedSeq(o.contains[i].e)>> \in ks)
         -> name \o ":MembershipAgreesWithStoredRules"
    [] ~(ks \ SelfKeys(rs) = ModelKeys(rs) \ SelfKeys(rs)) -> name \o ":StoredRulesAreTheInsertedOnes"
    [] o.spec \notin {"T", "F"} -> name \o ":HasSpecificationIsTotal"
    [] (o.spec = "T") # HasSpec(rs, tr.root, tr.iter) -> name \o ":HasSpecificationFollowsTheSpecification"
    [] \E i \in 1..Len(o.strat) : ~o.strat[i].ok \/ SortedSeq(o.strat[i].got) # SortedSeq(o.strat[i].e)
         -> name \o ":HandedBackStrategyReproducesTheRule"
    \* a rule stored as a two-way equivalence is reproduced as one: the strategy handed back from that store is two-way
    [] \E i \in 1..Len(o.strat) : o.strat[i].store = "eqv" /\ ~o.strat[i].tw
         -> name \o ":HandedBackStrategyReproducesTheRule"
    [] OTHER -> "ok"
Clause(tr, rs, e) ==
  LET rs2 == Insert(rs, tr, e.add)
      cd == FlavourClause(tr, rs2, e.d, "default")
      cf == FlavourClause(tr, rs2, e.f, "forget") IN
  CASE KeySet(e.d.keys) # KeySet(e.f.keys) -> "FlavoursAgreeOnStoredRules"
    [] e.d.contains # e.f.contains -> "FlavoursAgreeOnMembership"
    [] e.d.ver # e.f.ver -> "FlavoursAgreeOnVerifiedLabels"
    [] e.d.spec # e.f.spec -> "FlavoursAgreeOnSpecificationExistence"
    [] cd # "ok" -> cd
    [] cf # "ok" -> cf
    [] OTHER -> "ok"
Init == t = 1 /\ l = 1 /\ rules = {} /\ TLCSet(1, 0)
Step == /\ t <= Len(Traces) /\ l <= Len(Traces[t].events)
        /\ LET e == Traces[t].events[l]  c == Clause(Traces[t], rules, e) IN
             IF c = "ok" THEN rules' = Insert(rules, Traces[t], e.add) /\ l' = l + 1 /\ t' = t
             ELSE PrintT(<<"REJECT", Traces[t].tid, l, c>>) /\ t' = t + 1 /\ l' = 1 /\ rules' = {}
Finish == /\ t <= Len(Traces) /\ l > Len(Traces[t].events)
          /\ TLCSet(1, TLCGet(1) + 1) /\ t' = t + 1 /\ l' = 1 /\ rules' = {}
Next == Step \/ Finish
Spec == Init /\ [][Next]_vars
Post == PrintT(<<"ACCEPTED", TLCGet(1), "OF", Len(Traces)>>)
=============================================================================
