--------------------------------- MODULE Iso ---------------------------------
(* Bijections between specifications (C12) and the parallel specification finder (C13).           *)
(* A "bij" event lists, for one size n, the image of every object of the first start class under   *)
(* the constructed map (fwd) and of every object of the second start class under the inverse (inv); *)
(* the object sets themselves come from WordUniverse.tla.                                           *)
EXTENDS WordUniverse, Bisim, TLC
PairsOf(tbl) == {<<tbl[i][1], tbl[i][2]>> : i \in 1..Len(tbl)}
Dom(tbl) == {tbl[i][1] : i \in 1..Len(tbl)}
Ran(tbl) == {tbl[i][2] : i \in 1..Len(tbl)}
Img(tbl, x) == (CHOOSE p \in PairsOf(tbl) : p[1] = x)[2]
BijClause(c1, c2, e) ==
  LET A == Objs(c1, e.n)  B == Objs(c2, e.n) IN
  CASE Dom(e.fwd) # A \/ Dom(e.inv) # B -> "FIXTURE:EveryObjectWasMapped"
    [] e.failed # "" -> "MappingAnObjectSucceeds"
    [] ~(Ran(e.fwd) \subseteq B) -> "MapSendsObjectsToObjectsOfTheSameSizeInTheSecondClass"
    [] Cardinality(Ran(e.fwd)) # Cardinality(A) -> "MapIsOneToOne"
    [] Ran(e.fwd) # B -> "MapIsOnto"
    [] \E x \in A : Img(e.inv, Img(e.fwd, x)) # x -> "InverseUndoesTheMap"
    [] \E y \in B : Img(e.fwd, Img(e.inv, y)) # y -> "MapUndoesTheInverse"
    [] OTHER -> "ok"
CheckClause(e) ==
  CASE e.ab \notin {"T", "F"} \/ e.ba \notin {"T", "F"} -> "IsomorphismTestIsTotal"
    [] e.ab # e.ba -> "IsomorphismTestIsSymmetric"
    [] OTHER -> "ok"
ReflexiveClause(e) == IF e.atoms_only /\ e.res # "T" THEN "IsomorphismTestIsReflexiveWhenVerifiedClassesAreAtoms" ELSE "ok"
\* the parallel finder: total; a returned pair is isomorphic and a bijection can be built from it
\* Whether a returned pair is isomorphic is judged by Bisim.tla (the bisim event that follows) whenever the pair could be
\* exported (parameter-free, not too large); the library's own test is the judge only otherwise.  The library's test follows
\* one equivalence step where a specification may have a chain of two, so it can reject a pair that is isomorphic: that, and
\* a bijection that cannot be built from the pair, are notes - C13 does not promise them.
FinderClause(e) ==
  CASE e.kind \notin {"none", "pair"} -> "ParallelFinderIsTotal"
    [] e.kind = "pair" /\ ~e.has_bisim /\ e.iso # "T" -> "ReturnedSpecificationsAreIsomorphic"
    [] OTHER -> "ok"
FinderNote(e) == e.kind = "pair" /\ (e.iso # "T" \/ ~e.bijection)
\* structural isomorphism judged independently (Bisim.tla).  e.A / e.B : class name -> node, e.EA / e.EB : empty classes,
\* e.ra / e.rb : the roots, e.claim : what is claimed ("finder": the finder returned this pair; "check": the library's test
\* answered e.ans).  Only parameter-free specifications are exported (constructor equivalence is then equality of kinds).
SeqSetI(q) == {q[i] : i \in 1..Len(q)}
BisimClause(e) ==
  LET b == Bisimilar(e.A, SeqSetI(e.EA), e.ra, e.B, SeqSetI(e.EB), e.rb) IN
  CASE e.claim = "finder" /\ ~b -> "ReturnedSpecificationsAreIsomorphic"
    \* the library's test is not asked to be complete, and a wrong "yes" is only a defect if a bijection built from it
    \* misbehaves (judged by the bij events): a disagreement is reported as a note, never as a verdict
    [] OTHER -> "ok"
BisimAgrees(e) == (e.ans = "T") = Bisimilar(e.A, SeqSetI(e.EA), e.ra, e.B, SeqSetI(e.EB), e.rb)
\* a bijection reloaded from its JSON form maps like the original
ReloadClause(e) == IF e.same_fwd /\ e.same_inv THEN "ok" ELSE "ReloadedBijectionMapsLikeTheOriginal"
=============================================================================
