----------------------------- MODULE Trace_TreeGen -----------------------------
(* Batch trace monitor: counting (C01) and generation (C07) from the real specification of a TLC-chosen      *)
(* productive system of the tree universe.   {tid, A : system, events:[...]}                                   *)
(*   tcount : n, cnt  = count_objects_of_size(n) of the specification (or -1 and the exception in `error`)      *)
(*   tgen   : n, objs = generate_objects_of_size(n) as a sequence (or the exception in `error`)                  *)
EXTENDS TreeUniverse, Json, IOUtils
Traces == ndJsonDeserialize(IOEnv.TRACE_FILE)
VARIABLES t, l
vars == <<t, l>>
SeqSetG(q) == {q[i] : i \in 1..Len(q)}
Clause(tr, e) ==
  CASE e.op = "tcount" -> IF e.cnt = Cardinality(TObjs(tr.A, 1, e.n)) THEN "ok" ELSE "CountsEqualTrueEnumeration"
    [] e.op = "tgen" ->
         IF e.error # "" THEN "GenerationSucceeds"
         ELSE IF Cardinality(SeqSetG(e.objs)) # Len(e.objs) THEN "NoObjectGeneratedTwice"
         ELSE IF SeqSetG(e.objs) # TObjs(tr.A, 1, e.n) THEN "GeneratedObjectsAreExactlyTheObjectsOfThatSize"
         ELSE "ok"
    [] OTHER -> "UnknownEvent"
Init == t = 1 /\ l = 1 /\ TLCSet(1, 0)
Step == /\ t <= Len(Traces) /\ l <= Len(Traces[t].events)
        /\ LET c == Clause(Traces[t], Traces[t].events[l]) IN
             IF c = "ok" THEN l' = l + 1 /\ t' = t
             ELSE PrintT(<<"REJECT", Traces[t].tid, l, c>>) /\ t' = t + 1 /\ l' = 1
Finish == /\ t <= Len(Traces) /\ l > Len(Traces[t].events)
          /\ TLCSet(1, TLCGet(1) + 1) /\ t' = t + 1 /\ l' = 1
Next == Step \/ Finish
Spec == Init /\ [][Next]_vars
Post == PrintT(<<"ACCEPTED", TLCGet(1), "OF", Len(Traces)>>)
=============================================================================
