---------------------------- MODULE Trace_Search ----------------------------
(* Batch trace monitor for the rule universe built by the searcher (C04).                        *)
(*  {tid, te:[truly empty classes], flavour, pack:[strategy ids], factories:[ids], events:[...]}  *)
(* The event stream interleaves, in real order,                                                   *)
(*   - the public class-database calls (format of Trace_ClassDB), replayed on ClassDB.tla so that  *)
(*     the monitor knows which class carries which label, and                                      *)
(*   - "rule" events, one per insertion into the rule database:                                   *)
(*       l = start label, ends = end labels, c = parent class, children = child classes,           *)
(*       b = the strategy declared possibly_empty, strat = the rule's strategy,                    *)
(*       origin_strat / origin_cls = the pack element that yielded the rule and the class it was   *)
(*       applied to, reapplies / re_children = what the rule's strategy produces when re-applied   *)
(*       to the parent class, stored = the keys that appeared in the rule database.                *)
EXTENDS ClassDB, TLC, Json, IOUtils
Traces == ndJsonDeserialize(IOEnv.TRACE_FILE)
VARIABLES t, l, st
vars == <<t, l, st>>
Start(i) == IF i <= Len(Traces) THEN InitDB(ToSet(Traces[i].te)) ELSE InitDB({})
Match(s, e) == {r \in Outcomes(s, e) : r.ret = e.ret}
ClassAt(s, lab) == IF KnownL(s, lab) THEN s.store[lab + 1] ELSE "?unknown-label"
RemoveOne(seq, x) == LET i == CHOOSE i \in 1..Len(seq) : seq[i] = x IN SubSeq(seq, 1, i - 1) \o SubSeq(seq, i + 1, Len(seq))
RECURSIVE SubMultiset(_, _)   \* is sequence a a sub-multiset of sequence b
SubMultiset(a, b) == IF a = <<>> THEN TRUE
                ELSE IF \E i \in 1..Len(b) : b[i] = Head(a) THEN SubMultiset(Tail(a), RemoveOne(b, Head(a))) ELSE FALSE
RECURSIVE MultisetMinus(_, _) \* b minus the elements of a (a is a sub-multiset of b)
MultisetMinus(b, a) == IF a = <<>> THEN b ELSE MultisetMinus(RemoveOne(b, Head(a)), Tail(a))
SeqToSet(s) == {s[i] : i \in 1..Len(s)}
\* stored keys, pruning flavours: (start, cleaned ends): a sub-multiset of the end labels; every omitted label
\* belongs to a truly empty class and the strategy declared possibly_empty
StoredOkBase(s, tr, e, k) ==
  /\ k.s = e.l
  /\ SubMultiset(k.e, e.ends)
  /\ \A x \in SeqToSet(MultisetMinus(e.ends, k.e)) : e.b /\ ClassAt(s, x) \in s.te
\* stored keys, forest flavour: the rule's own key, a reverse key, or the explicit empty rule of an empty child
StoredOkForest(s, tr, e, k) ==
  \/ k.s = e.l /\ k.e = e.ends
  \/ \E i \in 1..Len(e.ends) : k.s = e.ends[i] /\ SubMultiset(k.e, <<e.l>> \o e.ends) /\ Len(k.e) = Len(e.ends)
  \/ k.e = <<>> /\ k.b = "VERIFICATION" /\ ClassAt(s, k.s) \in s.te
RuleClause(s, tr, e) ==
  CASE ClassAt(s, e.l) # e.c -> "ParentLabelCarriesTheRulesParentClass"
    [] Len(e.ends) # Len(e.children) -> "ChildLabelsAreExactlyTheLabelsOfTheChildren"
    [] \E i \in 1..Len(e.ends) : ClassAt(s, e.ends[i]) # e.children[i] -> "ChildLabelsAreExactlyTheLabelsOfTheChildren"
    [] e.empty_strategy /\ ~(e.c \in s.te /\ e.children = <<>>) -> "EmptyRuleOnlyForTrulyEmptyClass"
    [] ~e.empty_strategy /\ e.origin_strat \notin SeqToSet(tr.pack) -> "RuleProducedByAStrategyOfThePack"
    [] ~e.empty_strategy /\ e.origin_strat \notin SeqToSet(tr.factories) /\ (e.origin_cls # e.c \/ e.origin_strat # e.strat)
         -> "PlainStrategyAppliedToTheClassBeingExpanded"
    [] ~e.reapplies -> "NoRuleByAStrategyThatDoesNotApply"
    [] e.re_children # e.children -> "RuleIsWhatTheStrategyProducesForThatClass"
    [] e.tracked /\ tr.flavour # "forest" /\ \E i \in 1..Len(e.stored) : ~StoredOkBase(s, tr, e, e.stored[i])
         -> "ChildOmittedOnlyIfTrulyEmptyAndDeclaredPossiblyEmpty"
    [] e.tracked /\ tr.flavour = "forest" /\ \E i \in 1..Len(e.stored) : ~StoredOkForest(s, tr, e, e.stored[i])
         -> "ForestKeysAreTheRuleItsReversesOrEmptyRules"
    [] OTHER -> "ok"
Clause(s, tr, e) ==
  IF e.op = "rule" THEN RuleClause(s, tr, e)
  ELSE IF Match(s, e) = {} THEN ClauseOf(s, e)
  ELSE LET r == CHOOSE x \in Match(s, e) : TRUE IN
       IF ~CacheTruthful(r.st) THEN "CachedEmptinessTruthful" ELSE "ok"
Init == t = 1 /\ l = 1 /\ st = Start(1) /\ TLCSet(1, 0)
Step == /\ t <= Len(Traces) /\ l <= Len(Traces[t].events)
        /\ LET e == Traces[t].events[l]  c == Clause(st, Traces[t], e) IN
             IF c = "ok" THEN /\ st' = IF e.op = "rule" THEN st ELSE (CHOOSE x \in Match(st, e) : TRUE).st
                              /\ l' = l + 1 /\ t' = t
             ELSE /\ PrintT(<<"REJECT", Traces[t].tid, l, c>>)
                  /\ t' = t + 1 /\ l' = 1 /\ st' = Start(t + 1)
Finish == /\ t <= Len(Traces) /\ l > Len(Traces[t].events)
          /\ TLCSet(1, TLCGet(1) + 1)
          /\ t' = t + 1 /\ l' = 1 /\ st' = Start(t + 1)
Next == Step \/ Finish
Spec == Init /\ [][Next]_vars
Post == PrintT(<<"ACCEPTED", TLCGet(1), "OF", Len(Traces)>>)
=============================================================================
