----------------------------- MODULE MC_PruneAlg -----------------------------
EXTENDS PruneAlg
CONSTANTS NL, MaxPer, MaxArity
Labels == 0..(NL - 1)
NonDecr(r) == \A i \in 1..(Len(r) - 1) : r[i] <= r[i + 1]
AllRules == UNION {{r \in [1..a -> Labels] : NonDecr(r)} : a \in 0..MaxArity}
RuleSets == {S \in SUBSET AllRules : Cardinality(S) <= MaxPer}
Init == /\ \E f \in [Labels -> RuleSets] : d0 = [k \in {k \in Labels : f[k] # {}} |-> f[k]]
        /\ root \in Labels /\ mode \in {"prune", "iter"}
        /\ d = d0 /\ ver = {root} /\ moved = <<>>
Spec == Init /\ [][PANext]_pavars
=============================================================================
