------------------------------- MODULE Search -------------------------------
(* The expand / check loop of CombinatorialSpecificationSearcher (comb_spec_searcher.py) over an    *)
(* abstract, table-driven universe, composed from the machines specified separately:               *)
(*   ClassDB.tla  (labels in order of first appearance, cached emptiness),                          *)
(*   ClassQueue.tla (the implementation-shaped work queue),                                         *)
(*   RuleDB.tla / EquivDB.tla (stored rules, equivalence, pruning).                                 *)
(*                                                                                                  *)
(* The universe U is a record                                                                       *)
(*   start    : the start class                                                                     *)
(*   empty    : the set of truly empty classes                                                      *)
(*   verified : classes the verification strategy verifies (a rule with no children)               *)
(*   ninf, ninit, nsym : number of inferral / initial / symmetry strategies;  nexps : sequence, the    *)
(*              number of strategies in each expansion set;  iterative : the pack's flag              *)
(*   inferral, symm : class -> sequence of ninf / nsym slots;  expand : class -> per set, its slots   *)
(*   initial  : class -> sequence of ninit slots; a slot is the sequence of rules the i-th initial    *)
(*              strategy yields for the class (<<>>: nothing; a plain strategy: at most one rule; a  *)
(*              strategy factory: any number, possibly for *other* parent classes)                    *)
(*   flavour  : "base" (rule_db/base.py: pruning, equivalence) | "forest" (rule_db/forest.py: a     *)
(*              class is verified as soon as it is productive);  reverse : the forest database also   *)
(*              stores the keys of the reverse rules of every reversible rule                          *)
(* a rule is [ch |-> children classes, pe |-> possibly_empty, ip |-> ignore_parent,                 *)
(*            wk |-> workable, tw |-> two-way, rv |-> reversible, sh |-> shifts, nf |-> inferrable,   *)
(*            par |-> the class                                                                        *)
(*            the rule is a rule of (the class being expanded, or a foreign parent)].                 *)
(* Pack shape: any number of inferral, initial and symmetry strategies, any number of expansion sets; *)
(* inferral and symmetry strategies are plain strategies, the others may be factories.                *)
(*                                                                                                  *)
(* One action = one work packet (Packet), one specification check (Check; in the base flavour it     *)
(* marks the surviving classes verified, as RuleDBBase.pruned_dict does), or the end of the search.  *)
(* When Check happens is the time-slicing: TLC explores every slicing.  Whether a handed-out packet  *)
(* is expanded or skipped is decided for *that packet* from the state at that moment (is_verified of *)
(* its label) - in the forest flavour a class may become verified by one of its own earlier packets. *)
EXTENDS Naturals, Integers, Sequences, FiniteSets, FiniteSetsExt, SequencesExt, TLC
CONSTANT U
NInf == U.ninf
NInit == U.ninit
Exp == U.nexps
Q == INSTANCE ClassQueue
INSTANCE RuleDB
PR == INSTANCE Productivity
Forest == U.flavour = "forest"

VARIABLES store,    \* sequence of classes: index = label + 1
          empt,     \* label -> "U" | "T" | "F"   cached emptiness
          q,        \* the work queue (ClassQueue implementation-shaped state)
          rules,    \* base flavour: set of stored rules [s, e, tw] over labels (cleaned: empty children of possibly_empty rules dropped)
          keys,     \* forest flavour: set of forest keys [p, ch, sh] over labels (all children, in order, with the shifts)
          marks,    \* labels marked verified in the equivalence database (verification rules + pruning survivors)
          tried,    \* labels on which verification was tried
          infx,     \* labels that were inferral-expanded (inferral_expanded)
          symx,     \* labels that were symmetry-expanded (symmetry_expanded)
          expanded, \* packets that were expanded (history, for the properties)
          skipped,  \* packets handed out but skipped because their label was verified
          phase,    \* "run" | "exhausted" | "found" | "notfound"
          checks    \* number of specification checks so far
svars == <<store, empt, q, rules, keys, marks, tried, infx, symx, expanded, skipped, phase, checks>>

LabelOfC(st, c) == (CHOOSE i \in 1..Len(st) : st[i] = c) - 1
KnownC(st, c) == \E i \in 1..Len(st) : st[i] = c
WithC(st, c) == IF KnownC(st, c) THEN st ELSE Append(st, c)
ClassAtL(st, l) == st[l + 1]
IsEmptyCls(c) == c \in U.empty
Slot(f, c, i) == IF c \in DOMAIN f THEN f[c][i] ELSE <<>>
SlotE(c, j, i) == IF c \in DOMAIN U.expand THEN U.expand[c][j][i] ELSE <<>>
SameClass(rule) == Len(rule.ch) = 1 /\ rule.ch[1] = rule.par    \* an equivalence strategy returning the same class: dropped

\* the state threaded through the nested calls (try_verify inside add_rule inside _expand)
S(st, em, qq, rs, ks, mk, tr, ix, sx) == [store |-> st, empt |-> em, q |-> qq, rules |-> rs, keys |-> ks, marks |-> mk, tried |-> tr, infx |-> ix, symx |-> sx]
SetEm(em, l, v) == [x \in DOMAIN em \cup {l} |-> IF x = l THEN v ELSE em[x]]
GetEm(em, l) == IF l \in DOMAIN em THEN em[l] ELSE "U"

\* forest: is_pumping(label) - the label is productive under the stored keys (Productivity.tla)
PumpingL(ks, l) == LET C == PR!ClassesOf(ks) \cup {l} IN PR!Answer(ks, C)[l] = -1
\* is_verified(label).  base: some label of its equivalence class is marked (classes by the stored single-child rules)
VerifiedL(s, l) == IF Forest THEN PumpingL(s.keys, l)
                   ELSE LET rep == RepMap(s.rules, {l} \cup s.marks) IN \E m \in s.marks : rep[m] = rep[l]

\* RuleDBBase.add: clean the labels, record the rule
RuleDBAdd(s, start, ends, rule, isver) ==
  LET keep == SelectSeq(ends, LAMBDA x : ~(rule.pe /\ IsEmptyCls(ClassAtL(s.store, x))))
      \* _clean_labels asks classdb.is_empty(child): caches the answer, and stops yielding empty children
      dropped == {ends[i] : i \in {i \in 1..Len(ends) : rule.pe /\ IsEmptyCls(ClassAtL(s.store, ends[i]))}}
      em2 == [x \in DOMAIN s.empt \cup (IF rule.pe THEN {ends[i] : i \in 1..Len(ends)} ELSE {}) |->
                IF rule.pe /\ x \in {ends[i] : i \in 1..Len(ends)} /\ GetEm(s.empt, x) = "U"
                THEN (IF IsEmptyCls(ClassAtL(s.store, x)) THEN "T" ELSE "F") ELSE GetEm(s.empt, x)]
      RECURSIVE stopAll(_, _)
      stopAll(qq, ls) == IF ls = {} THEN qq ELSE LET x == CHOOSE y \in ls : TRUE IN stopAll(Q!SetStop(qq, x), ls \ {x})
      sorted == SortSeq(keep, LAMBDA a, b : a < b)
      r == [s |-> start, e |-> sorted, tw |-> (rule.tw /\ Len(sorted) = 1)]
  \* (the code's `if ends == [start]: return` compares a tuple with a list and never fires: a rule whose cleaned children
  \* are just the parent itself is stored like any other; modelled as the code behaves)
  IN [s EXCEPT !.empt = em2, !.q = stopAll(s.q, dropped),
               !.rules = IF r.tw THEN (@ \ {x \in @ : ~x.tw /\ ((x.s = r.s /\ x.e = r.e) \/ (x.s = r.e[1] /\ x.e = <<r.s>>))}) \cup {r}
                         ELSE IF \E x \in @ : x.s = r.s /\ x.e = r.e /\ x.tw THEN @ ELSE @ \cup {r},
               !.marks = IF isver THEN @ \cup {start} ELSE @]

VerRule == [ch |-> <<>>, pe |-> FALSE, ip |-> TRUE, wk |-> FALSE, tw |-> FALSE, rv |-> FALSE, sh |-> <<>>, nf |-> TRUE, par |-> -1]
\* the forest key of rule.to_reverse_rule(i): child i in terms of the parent and the other children
DropI(sq, i) == SubSeq(sq, 1, i - 1) \o SubSeq(sq, i + 1, Len(sq))
RevKey(start, ends, sh, i) == [p |-> ends[i], ch |-> <<start>> \o DropI(ends, i),
                               sh |-> <<0 - sh[i]>> \o [j \in 1..(Len(sh) - 1) |-> DropI(sh, i)[j] - sh[i]]]
EmptyKey(l) == [p |-> l, ch |-> <<>>, sh |-> <<>>]
\* RuleDBForest._add_empty_rule: every empty child of a possibly_empty rule that has no empty rule yet gets one through
\* searcher.add_rule(label, (), EmptyStrategy rule): it stops being yielded (ignore_parent) and its key is stored
RECURSIVE AddEmpties(_, _, _)
AddEmpties(s, ends, i) ==
  IF i > Len(ends) THEN s
  ELSE LET l == ends[i]
           em == [s EXCEPT !.empt = [x \in DOMAIN @ \cup {l} |-> IF x = l /\ (IF x \in DOMAIN @ THEN @[x] ELSE "U") = "U"
                                                                  THEN (IF IsEmptyCls(ClassAtL(s.store, l)) THEN "T" ELSE "F")
                                                                  ELSE @[x]]]
       IN IF EmptyKey(l) \in s.keys /\ IsEmptyCls(ClassAtL(s.store, l)) THEN AddEmpties(s, ends, i + 1)   \* _already_empty: not even asked
          ELSE IF IsEmptyCls(ClassAtL(s.store, l))
               THEN AddEmpties([em EXCEPT !.q = Q!SetStop(@, l), !.keys = @ \cup {EmptyKey(l)}], ends, i + 1)
               ELSE AddEmpties(em, ends, i + 1)
\* RuleDBForest.add: the empty rules first, then the key of the rule itself (all children, in order) and, with reverse
\* rules on, the key of each of its reverse rules; forest_key asks the emptiness of every child (is_equivalence), caching it
ForestAdd(s, start, ends, rule) ==
  LET s1 == IF rule.pe THEN AddEmpties(s, ends, 1) ELSE s
      es == {ends[i] : i \in 1..Len(ends)}
      em2 == [x \in DOMAIN s1.empt \cup es |->
                IF x \in es /\ (IF x \in DOMAIN s1.empt THEN s1.empt[x] ELSE "U") = "U"
                THEN (IF IsEmptyCls(ClassAtL(s1.store, x)) THEN "T" ELSE "F") ELSE s1.empt[x]]
  IN [s1 EXCEPT !.empt = em2,
                !.keys = @ \cup {[p |-> start, ch |-> ends, sh |-> rule.sh]}
                           \cup (IF U.reverse /\ rule.rv THEN {RevKey(start, ends, rule.sh, i) : i \in 1..Len(ends)} ELSE {})]
RECURSIVE TryVerify(_, _), AddRule(_, _, _, _, _), AddChildren(_, _, _, _)
DbAdd(s, start, ends, rule, isver) == IF Forest THEN ForestAdd(s, start, ends, rule) ELSE RuleDBAdd(s, start, ends, rule, isver)
\* a slot (of a plain strategy) is usable unless it is empty or an equivalence strategy returning the same class (dropped)
Usable(slot, c) == slot # <<>> /\ ~SameClass(slot[1])
\* _symmetry_expand(class, label): the emptiness of the class is asked (and cached); every symmetric image gets a label,
\* inherits the emptiness, is recorded by ruledb.add directly (no add_rule: no verification, not queued) and stops being yielded
RECURSIVE SymLoop(_, _, _, _, _)
SymLoop(s, l, i, empty, syms) ==
  IF i > U.nsym THEN [s EXCEPT !.symx = @ \cup {l} \cup syms]
  ELSE LET c == ClassAtL(s.store, l)  slot == Slot(U.symm, c, i) IN
       IF ~Usable(slot, c) THEN SymLoop(s, l, i + 1, empty, syms)
       ELSE LET rule == slot[1]
                st2 == WithC(s.store, rule.ch[1])
                sl == LabelOfC(st2, rule.ch[1])
                s1 == [s EXCEPT !.store = st2, !.empt = SetEm(@, sl, IF empty THEN "T" ELSE "F")]
                s2 == DbAdd(s1, l, <<sl>>, rule, FALSE)
            IN SymLoop([s2 EXCEPT !.q = Q!SetStop(@, sl)], l, i + 1, empty, syms \cup {sl})
SymExpand(s, l) ==
  LET c == ClassAtL(s.store, l)
      s1 == [s EXCEPT !.empt = SetEm(@, l, IF GetEm(@, l) = "U" THEN (IF IsEmptyCls(c) THEN "T" ELSE "F") ELSE GetEm(@, l))]
  IN SymLoop(s1, l, 1, GetEm(s1.empt, l) = "T", {})
\* try_verify(class, label)
TryVerify(s, l) ==
  IF l \in s.tried THEN s
  ELSE LET s1 == [s EXCEPT !.tried = @ \cup {l}]
           c == ClassAtL(s.store, l)
           s2 == [s1 EXCEPT !.empt = SetEm(@, l, IF GetEm(@, l) = "U" THEN (IF IsEmptyCls(c) THEN "T" ELSE "F") ELSE GetEm(@, l))]
       IN IF IsEmptyCls(c) THEN s2
          ELSE IF c \in U.verified /\ ~VerifiedL(s2, l) THEN AddRule(s2, l, <<>>, VerRule, TRUE) ELSE s2
\* the per-child part of add_rule, children in order
AddChildren(s, ends, rule, i) ==
  IF i > Len(ends) THEN s
  ELSE LET l == ends[i]
           s1 == IF ~rule.pe THEN [s EXCEPT !.empt = SetEm(@, l, "F")] ELSE s
           sy == IF U.nsym > 0 /\ l \notin s1.symx THEN SymExpand(s1, l) ELSE s1
           s2 == IF rule.wk THEN [sy EXCEPT !.q = Q!Add(@, l)] ELSE sy
           s2b == IF ~rule.nf THEN [s2 EXCEPT !.q = Q!SetNotInf(@, l)] ELSE s2
           s3 == TryVerify(s2b, l)
       IN AddChildren(s3, ends, rule, i + 1)
\* add_rule(start, ends, rule)
AddRule(s, start, ends, rule, isver) ==
  LET s1 == AddChildren(s, ends, rule, 1)
      s2 == IF rule.ip THEN [s1 EXCEPT !.q = Q!SetStop(@, start)] ELSE s1
  IN DbAdd(s2, start, ends, rule, isver)
\* _expand_class_with_strategy + add_rule for one strategy slot
RECURSIVE LabelAll(_, _, _)
LabelAll(st, chs, i) == IF i > Len(chs) THEN st ELSE LabelAll(WithC(st, chs[i]), chs, i + 1)
\* one rule yielded by _expand_class_with_strategy: the children are labelled first, then (for a foreign parent) the parent
ExpandOne(s, l, rule) ==
  LET c == ClassAtL(s.store, l) IN
  IF SameClass(rule) THEN s
  ELSE LET st2 == LabelAll(s.store, rule.ch, 1)
           ends == [i \in 1..Len(rule.ch) |-> LabelOfC(st2, rule.ch[i])]
           st3 == IF rule.par = c THEN st2 ELSE WithC(st2, rule.par)
           start == IF rule.par = c THEN l ELSE LabelOfC(st3, rule.par)
       IN AddRule([s EXCEPT !.store = st3], start, ends, rule, FALSE)
RECURSIVE ExpandRules(_, _, _, _)
ExpandRules(s, l, rs, i) == IF i > Len(rs) THEN s ELSE ExpandRules(ExpandOne(s, l, rs[i]), l, rs, i + 1)
ExpandWith(s, l, slot) == ExpandRules(s, l, slot, 1)

\* _inferral_expand(class, label, strategies, skip): the first strategy (in the given order, the one that produced this
\* class excepted) that yields a rule is applied, the parent stops being inferrable, and the inferred class is expanded in
\* turn with the order rotated to start after that strategy; a label is inferral-expanded at most once
RECURSIVE InfExpand(_, _, _, _)
InfExpand(s, l, order, skip) ==
  IF l \in s.infx THEN s
  ELSE LET s0 == [s EXCEPT !.infx = @ \cup {l}]
           c == ClassAtL(s.store, l)
           cand == {i \in 1..Len(order) : order[i] # skip /\ Usable(Slot(U.inferral, c, order[i]), c)}
       IN IF cand = {} THEN [s0 EXCEPT !.q = Q!SetNotInf(@, l)]
          ELSE LET i == Min(cand)
                   s1 == ExpandOne(s0, l, Slot(U.inferral, c, order[i])[1])
                   infl == LabelOfC(s1.store, Slot(U.inferral, c, order[i])[1].ch[1])
                   s2 == [s1 EXCEPT !.q = Q!SetNotInf(@, l)]
                   s3 == InfExpand(s2, infl, SubSeq(order, i + 1, Len(order)) \o SubSeq(order, 1, i), order[i])
               IN [s3 EXCEPT !.q = Q!SetNotInf(@, l)]

Cur == S(store, empt, q, rules, keys, marks, tried, infx, symx)
Install(s) == /\ store' = s.store /\ empt' = s.empt /\ q' = s.q /\ rules' = s.rules /\ keys' = s.keys /\ marks' = s.marks /\ tried' = s.tried
              /\ infx' = s.infx /\ symx' = s.symx

\* __init__: label the start class, queue it, try to verify it, symmetry-expand it
InitState == LET s0 == TryVerify(S(<<U.start>>, <<>>, Q!Add(Q!InitQ, 0), {}, {}, {}, {}, {}, {}), 0)
             IN IF U.nsym > 0 THEN SymExpand(s0, 0) ELSE s0
SInit ==
  LET s1 == InitState
  IN /\ store = s1.store /\ empt = s1.empt /\ q = s1.q /\ rules = s1.rules /\ keys = s1.keys /\ marks = s1.marks /\ tried = s1.tried
     /\ infx = s1.infx /\ symx = s1.symx
     /\ expanded = <<>> /\ skipped = <<>> /\ phase = "run" /\ checks = 0

\* one iteration of the loop in _expand_classes_for, as a function of the threaded state:
\* returns [s |-> new state, kind |-> "stop" | "skip" | "expand", p |-> the packet]
PacketStep(s) ==
  LET r == Q!NextP(s.q, 2000) IN
  IF r.ret = Q!StopP THEN [s |-> [s EXCEPT !.q = r.q], kind |-> "stop", p |-> r.ret]
  ELSE LET s1 == [s EXCEPT !.q = r.q]  l == r.ret.l IN
       IF VerifiedL(s1, l) THEN [s |-> s1, kind |-> "skip", p |-> r.ret]
       ELSE [s |-> IF r.ret.k = "inf" THEN InfExpand(s1, l, [i \in 1..U.ninf |-> i], 0)
                   ELSE ExpandWith(s1, l, IF r.ret.k = "init" THEN Slot(U.initial, ClassAtL(s1.store, l), r.ret.i) ELSE SlotE(ClassAtL(s1.store, l), r.ret.s, r.ret.i)),
             kind |-> "expand", p |-> r.ret]
Packet ==
  /\ phase = "run"
  /\ LET r == PacketStep(Cur) IN
     /\ Install(r.s)
     /\ phase' = IF r.kind = "stop" THEN "exhausted" ELSE "run"
     /\ expanded' = IF r.kind = "expand" THEN Append(expanded, r.p) ELSE expanded
     /\ skipped' = IF r.kind = "skip" THEN Append(skipped, r.p) ELSE skipped
     /\ UNCHANGED checks
\* has_specification(): prune the rules up to equivalence, mark the survivors verified
PrunedOf(rs) == LET rep == RepMap(rs, {0}) IN
                [rep |-> rep, surv |-> IF U.iterative THEN IterDerivableSet(RdEq(rs, rep), rep[0]) ELSE Gfp(RdEq(rs, rep))]
HasSpecOf(rs) == LET p == PrunedOf(rs) IN p.rep[0] \in p.surv
\* the answer of has_specification() in a state (forest: the root is productive; nothing is marked)
HasSpecS(s) == IF Forest THEN PumpingL(s.keys, 0) ELSE HasSpecOf(s.rules)
Check ==
  /\ phase \in {"run", "exhausted"}      \* after the queue is drained the loop checks one last time
  /\ IF Forest
     THEN /\ marks' = marks
          /\ phase' = IF PumpingL(keys, 0) THEN "found" ELSE IF phase = "exhausted" THEN "notfound" ELSE "run"
     ELSE LET p == PrunedOf(rules) IN
          /\ marks' = marks \cup p.surv
          /\ phase' = IF p.rep[0] \in p.surv THEN "found" ELSE IF phase = "exhausted" THEN "notfound" ELSE "run"
  /\ checks' = checks + 1
  /\ UNCHANGED <<store, empt, q, rules, keys, tried, infx, symx, expanded, skipped>>
SNext == Packet \/ Check
SSpec == SInit /\ [][SNext]_svars

\* the same search with no check before the queue is drained (a deterministic run): the reference
RECURSIVE Drain(_, _)
Drain(s, fuel) == IF fuel = 0 THEN s ELSE LET r == PacketStep(s) IN IF r.kind = "stop" THEN r.s ELSE Drain(r.s, fuel - 1)
Reference == Drain(InitState, 500)
RefAnswer == HasSpecS(Reference)

\* ---- properties ---------------------------------------------------------------------------------
\* C04 at the model level: every stored rule is what the universe offers for the class carrying its start label
AllSlots == UNION {{U.initial[c][i] : i \in 1..U.ninit} : c \in DOMAIN U.initial}
            \cup UNION {{U.inferral[c][i] : i \in 1..U.ninf} : c \in DOMAIN U.inferral}
            \cup UNION {{U.symm[c][i] : i \in 1..U.nsym} : c \in DOMAIN U.symm}
            \cup UNION {UNION {{U.expand[c][j][i] : i \in 1..U.nexps[j]} : j \in 1..Len(U.nexps)} : c \in DOMAIN U.expand}
AllRules == UNION {{sl[i] : i \in 1..Len(sl)} : sl \in AllSlots}
Offered(c) == {r \in AllRules : r.par = c}
RuleFaithful ==
  \A r \in rules :
     LET c == ClassAtL(store, r.s) IN
     \/ r.e = <<>> /\ c \in U.verified
     \/ \E rule \in Offered(c) : (\A i \in 1..Len(rule.ch) : KnownC(store, rule.ch[i])) /\
          LET chl == [i \in 1..Len(rule.ch) |-> LabelOfC(store, rule.ch[i])]
              keep == SelectSeq(chl, LAMBDA x : ~(rule.pe /\ IsEmptyCls(ClassAtL(store, x))))
          IN r.e = SortSeq(keep, LAMBDA a, b : a < b)
\* the same for the forest keys: an empty rule of an empty class, a verification rule of a verified class, or the key
\* (all children in order, shifts) of a rule the universe offers for the class carrying the parent label
KeyFaithful ==
  \A k \in keys :
     LET c == ClassAtL(store, k.p) IN
     \/ k.ch = <<>> /\ (c \in U.verified \/ IsEmptyCls(c))
     \/ \E rule \in Offered(c) : k.sh = rule.sh /\ Len(k.ch) = Len(rule.ch)
                                  /\ \A i \in 1..Len(k.ch) : ClassAtL(store, k.ch[i]) = rule.ch[i]
     \* or the reverse key of an offered reversible rule of the class carrying its first child
     \/ U.reverse /\ k.ch # <<>> /\ \E rule \in Offered(ClassAtL(store, k.ch[1])) : rule.rv /\ Len(rule.ch) = Len(k.ch) /\
          \E i \in 1..Len(rule.ch) :
             /\ \A j \in 1..Len(rule.ch) : KnownC(store, rule.ch[j])
             /\ k = RevKey(k.ch[1], [j \in 1..Len(rule.ch) |-> LabelOfC(store, rule.ch[j])], rule.sh, i)
LabelsInjective == \A i, j \in 1..Len(store) : store[i] = store[j] => i = j
CacheTruthfulS == \A l \in DOMAIN empt : empt[l] # "U" => (empt[l] = "T") = IsEmptyCls(ClassAtL(store, l))
\* nothing the queue hands out is lost: a packet is expanded, or skipped for a label that is verified (and stays so)
SkippedAreVerified == \A i \in 1..Len(skipped) : VerifiedL(Cur, skipped[i].l)
\* C17 / C01 at the model level: whether a specification is finally found does not depend on the slicing.
\* Reference: the answer of the same search when no check happens before the queue is drained.
FoundOnlyIfReferenceFinds == phase = "found" => RefAnswer
ExhaustedAgreesWithReference == phase = "exhausted" => (HasSpecS(Cur) <=> RefAnswer)
NotFoundOnlyIfReferenceFindsNone == phase = "notfound" => ~RefAnswer
\* what was explored under any slicing is part of what the reference explores (skipping only removes work)
ExploredWithinReference == phase = "exhausted" => \A r \in rules : \E x \in Reference.rules : ClassAtL(store, r.s) = ClassAtL(Reference.store, x.s) /\ Len(r.e) = Len(x.e)
=============================================================================
