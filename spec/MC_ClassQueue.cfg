CONSTANTS NInf = 1 NInit = 1 NL = 2 MaxDepth = 9 EmitMode = "none"
SPECIFICATION Spec
VIEW ViewCheck
INVARIANT PropertyHolds
INVARIANT NoFuel
INVARIANT StagingOnlyWork
INVARIANT EmitAll
INVARIANT EmitFinal
CHECK_DEADLOCK FALSE
