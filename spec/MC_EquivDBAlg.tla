--------------------------- MODULE MC_EquivDBAlg ---------------------------
(* Every interleaving of at most MaxOps edge / mark operations with cycle detections over labels      *)
(* 0..NL-1, every iteration order inside connect_cycles: soundness always, exactness after a           *)
(* detection, verified iff marked, vertices = recorded edges.                                          *)
EXTENDS EquivDBAlg
CONSTANTS NL, MaxOps
Labels == 0..(NL - 1)
VARIABLE nops
Init == AlgInit /\ nops = 0
Op == /\ nops < MaxOps /\ nops' = nops + 1
      /\ \/ \E a, b \in Labels : AddTwoWayA(a, b) \/ AddOneWayA(a, b)
         \/ \E a \in Labels : MarkA(a)
Next == Op \/ (UNCHANGED nops /\ (StartCC \/ StepCC \/ EndCC))
Spec == Init /\ [][Next]_<<algvars, nops>>
Sound == SoundA(Labels)
Exact == ExactA(Labels)
Verified == VerifiedA(Labels)
Vertices == VerticesAreEdges(Labels)
=============================================================================
