------------------------------- MODULE MC_Bisim -------------------------------
(* The lemma Bisim.tla rests on: the greedy pairing of children decides the existence of a pairing   *)
(* at every stage of the iteration, so the greatest fixed point computed with it is the greatest       *)
(* bisimulation computed with a search over all permutations.  Checked for all pairs of systems with   *)
(* two internal classes (kinds from Kinds, 1..MaxAr children over the two classes and two atoms).       *)
EXTENDS Bisim, Randomization
CONSTANTS MaxAr, Sample   \* Sample = 0: every pair of systems; otherwise nodes drawn from random subsets of that size
Kinds == {"DisjointUnion", "Complement"}
Names == 1..4
Tuples == UNION {[1..n -> Names] : n \in 1..MaxAr}
Internal == [eq : {FALSE}, k : Kinds, ch : Tuples, atom : {FALSE}, sz : {-1}]
Atom(sz) == [eq |-> FALSE, k |-> "V", ch |-> <<>>, atom |-> TRUE, sz |-> sz]
System(n1, n2) == (1 :> n1) @@ (2 :> n2) @@ (3 :> Atom(1)) @@ (4 :> Atom(0))
VARIABLES sa, sb
Pool == IF Sample = 0 THEN Internal ELSE RandomSubset(Sample, Internal)
Init == \E a1 \in Pool, a2 \in Pool, b1 \in Pool, b2 \in Pool :
          /\ a1.ch[1] <= a2.ch[1]        \* a mild symmetry reduction: systems up to nothing essential
          /\ sa = System(a1, a2) /\ sb = System(b1, b2)
Next == UNCHANGED <<sa, sb>>
\* reference: pairing by search over all permutations
Perms(n) == {f \in [1..n -> 1..n] : \A i, j \in 1..n : i # j => f[i] # f[j]}
PermMatch(spA, spB, a, b, R) ==
  LET as == NEB(spA, {}, a)  bs == NEB(spB, {}, b) IN
  /\ Len(as) = Len(bs)
  /\ \E f \in Perms(Len(as)) : /\ (Ordered(spA[a].k) /\ as # <<>> => f[1] = 1)
                               /\ \A i \in 1..Len(as) : <<as[i], bs[f[i]]>> \in R
RECURSIVE GfpRef(_, _, _)
GfpRef(spA, spB, R) ==
  LET R2 == {p \in R : PermMatch(spA, spB, p[1], p[2], R)} IN IF R2 = R THEN R ELSE GfpRef(spA, spB, R2)
Start(spA, spB) == {p \in (DOMAIN spA) \X (DOMAIN spB) : LocalB(spA, {}, spB, {}, p[1], p[2])}
GreedyIsExact == Bisimulation(sa, {}, sb, {}) = GfpRef(sa, sb, Start(sa, sb))
ResultIsABisimulation == IsBisimulation(sa, {}, sb, {}, Bisimulation(sa, {}, sb, {}))
\* reflexive on one system, symmetric between the two
Reflexive == \A c \in DOMAIN sa : <<c, c>> \in Bisimulation(sa, {}, sa, {})
Symmetric == \A p \in Bisimulation(sa, {}, sb, {}) : <<p[2], p[1]>> \in Bisimulation(sb, {}, sa, {})
=============================================================================
