----------------------------- MODULE MC_EquivDB -----------------------------
(* All interleavings of add-two-way, add-one-way, mark-verified and cycle detection over a     *)
(* small label set; invariants of the abstract machine; export of histories for replay.        *)
EXTENDS EquivDB, TLC, Json
CONSTANTS NL, MaxDepth, EmitMode
Labels == 0..(NL - 1)
VARIABLES st, hist, last
vars == <<st, hist, last>>
O(op, a, b) == [op |-> op, a |-> a, b |-> b]
Init == st = InitE /\ hist = <<>> /\ last = O("init", 0, 0)
Do(s2, o) == st' = s2 /\ last' = o /\ hist' = Append(hist, o)
Next == /\ Len(hist) < MaxDepth
        /\ \/ \E a, b \in Labels : Do(AddTwoWay(st, a, b), O("two", a, b)) \/ Do(AddOneWay(st, a, b), O("one", a, b))
           \/ \E a \in Labels : Do(Mark(st, a), O("mark", a, 0))
           \/ Do(ConnectCycles(st), O("cc", 0, 0))
Spec == Init /\ [][Next]_vars
ViewCover == <<st, last>>
ViewCheck == st
InvPartition == PartIsPartition(st)
InvSound == PartSound(st)
InvExact == PartExact(st)
\* verified is monotone and survives merges
VerMonotone == [][\A a \in Labels : IsVerified(st, a) => IsVerified(st', a)]_vars
EqMonotone == [][\A a, b \in Labels : Equivalent(st, a, b) => Equivalent(st', a, b)]_vars
EmitAll   == (EmitMode = "all" /\ hist # <<>>) => PrintT(<<"H", ToJson(hist)>>)
EmitFinal == (EmitMode = "final" /\ Len(hist) = MaxDepth) => PrintT(<<"H", ToJson(hist)>>)
=============================================================================
