INIT TInit
NEXT TNext
POSTCONDITION Post
CHECK_DEADLOCK FALSE
