----------------------------- MODULE ClassQueue -----------------------------
(* The work queue of comb_spec_searcher (class_queue.py, DefaultQueue).                       *)
(*                                                                                            *)
(* Two layers.                                                                                *)
(*  1. Implementation-shaped layer: a functional transcription of DefaultQueue - the deques   *)
(*     working / curr_level[0..NSets] / staging, the Counter next_level (a sequence of        *)
(*     <<label,count>> in insertion order, as a Python dict), the sets _inferral_expanded,    *)
(*     _initial_expanded, ignore, and the level counter.  One operator per public call.        *)
(*  2. Property layer (C16): a ghost record computed from the *observable* call history only  *)
(*     (what was added, externally stopped / marked, handed out) and the clauses P1-P5 over it.*)
(*     The trace monitor judges real executions with layer 2 alone; layer 1 is model-checked   *)
(*     to satisfy layer 2 and is compared with the code as a (non-fatal) divergence check.     *)
(*                                                                                            *)
(* Pack shape: NInf in {0,1} (any inferral strategies?), NInit initial strategies,             *)
(* Exp = sequence of the sizes of the expansion sets.                                          *)
EXTENDS Naturals, Integers, Sequences, FiniteSets, SequencesExt, TLC
CONSTANTS NInf, NInit, Exp
NSets == Len(Exp)

\* ---- work packets (uniform records) ---------------------------------------------------
P(l, k, s, i) == [l |-> l, k |-> k, s |-> s, i |-> i]
InfP(l)       == P(l, "inf", 0, 0)       \* (label, all inferral strategies, inferral=True)
InitP(l, i)   == P(l, "init", 0, i)      \* (label, (i-th initial strategy,), False)
ExpP(l, s, i) == P(l, "exp", s, i)       \* (label, (i-th strategy of expansion set s,), False)
StopP  == P(-1, "stop", 0, 0)            \* StopIteration
EndP   == P(-1, "end", 0, 0)             \* do_level generator finished normally
ErrP   == P(-1, "NoMoreClassesToExpandError", 0, 0)
FuelP  == P(-1, "fuel", 0, 0)            \* the recursion bound of the model was hit (never, see NoFuel)
NoneP  == P(-1, "none", 0, 0)
IsWork(p) == p.k \in {"inf", "init", "exp"}

\* ======================= layer 1: implementation-shaped ================================
EmptyCurr == [j \in 1..(NSets + 1) |-> <<>>]
InitQ == [working |-> <<>>, next |-> <<>>, curr |-> EmptyCurr, infDone |-> {}, initDone |-> {},
          ignore |-> {}, staging |-> <<>>, levels |-> 0]
CanInf(q, l)  == NInf > 0 /\ l \notin q.infDone
CanInit(q, l) == NInit > 0 /\ l \notin q.initDone
RECURSIVE BagAdd(_, _)
BagAdd(b, l) == IF b = <<>> THEN << <<l, 1>> >>
                ELSE IF Head(b)[1] = l THEN << <<l, Head(b)[2] + 1>> >> \o Tail(b)
                ELSE <<Head(b)>> \o BagAdd(Tail(b), l)
BagDel(b, l) == SelectSeq(b, LAMBDA e : e[1] # l)
Add(q, l) == IF CanInf(q, l) \/ CanInit(q, l) THEN [q EXCEPT !.working = Append(@, l)]
             ELSE IF l \notin q.ignore THEN [q EXCEPT !.next = BagAdd(@, l)] ELSE q
SetNotInf(q, l)  == IF l \notin q.ignore THEN [q EXCEPT !.infDone = @ \cup {l}] ELSE q
SetNotInit(q, l) == IF l \notin q.ignore THEN [q EXCEPT !.initDone = @ \cup {l}] ELSE q
SetStop(q, l) == [q EXCEPT !.ignore = @ \cup {l}, !.infDone = @ \ {l}, !.initDone = @ \ {l}, !.next = BagDel(@, l)]
SetVerified(q, l) == SetStop(q, l)
\* _iter_helper_working
HelperWorking(q) ==
  LET l  == Head(q.working)
      q1 == [q EXCEPT !.working = Tail(@)]
      q2 == IF CanInf(q1, l) THEN SetNotInf([q1 EXCEPT !.staging = Append(@, InfP(l))], l) ELSE q1
      q3 == IF CanInit(q2, l) THEN SetNotInit([q2 EXCEPT !.staging = @ \o [i \in 1..NInit |-> InitP(l, i)]], l) ELSE q2
  IN [q3 EXCEPT !.next = BagAdd(@, l)]
AnyCurr(q) == \E j \in 1..(NSets + 1) : q.curr[j] # <<>>
\* sorted(next_level.items(), key=-count): stable
RECURSIVE InsertDesc(_, _)
InsertDesc(s, e) == IF s = <<>> THEN <<e>>
                    ELSE IF Head(s)[2] >= e[2] THEN <<Head(s)>> \o InsertDesc(Tail(s), e) ELSE <<e>> \o s
RECURSIVE SortDesc(_)
SortDesc(b) == IF b = <<>> THEN <<>> ELSE InsertDesc(SortDesc(SubSeq(b, 1, Len(b) - 1)), b[Len(b)])
\* _change_level: [q, stop]
ChangeLevel(q) ==
  LET srt == SortDesc(q.next)  labs == [i \in 1..Len(srt) |-> srt[i][1]]
  IN IF labs = <<>> THEN [q |-> q, stop |-> TRUE]
     ELSE [q |-> [q EXCEPT !.curr[1] = labs, !.levels = @ + 1, !.next = <<>>], stop |-> FALSE]
\* _iter_helper_curr
HelperCurr(q) ==
  LET j  == CHOOSE j \in 1..(NSets + 1) : q.curr[j] # <<>> /\ \A k \in 1..(j - 1) : q.curr[k] = <<>>
      l  == Head(q.curr[j])
      q1 == [q EXCEPT !.curr[j] = Tail(@)]
  IN IF j = NSets + 1 THEN SetStop(q1, l)
     ELSE [q1 EXCEPT !.staging = @ \o [i \in 1..Exp[j] |-> ExpP(l, j, i)], !.curr[j + 1] = Append(@, l)]
\* _populate_staging, with a recursion bound ("fuel"): [q, stop, fuelout]
RECURSIVE Populate(_, _)
Populate(q, fuel) ==
  IF fuel = 0 THEN [q |-> q, stop |-> FALSE, fuelout |-> TRUE]
  ELSE IF q.staging = <<>> /\ q.working # <<>> THEN Populate(HelperWorking(q), fuel - 1)
  ELSE IF q.staging # <<>> THEN [q |-> q, stop |-> FALSE, fuelout |-> FALSE]
  ELSE IF ~AnyCurr(q) THEN
         LET c == ChangeLevel(q) IN
         IF c.stop THEN [q |-> q, stop |-> TRUE, fuelout |-> FALSE] ELSE Populate(HelperCurr(c.q), fuel - 1)
  ELSE Populate(HelperCurr(q), fuel - 1)
\* __next__ : [q, ret]
RECURSIVE NextP(_, _)
NextP(q, fuel) ==
  IF fuel = 0 THEN [q |-> q, ret |-> FuelP]
  ELSE IF q.staging # <<>> THEN
         LET wp == Head(q.staging)  q1 == [q EXCEPT !.staging = Tail(@)]
         IN IF wp.l \notin q1.ignore THEN [q |-> q1, ret |-> wp] ELSE NextP(q1, fuel - 1)
  ELSE LET p == Populate(q, fuel) IN
         IF p.fuelout THEN [q |-> p.q, ret |-> FuelP]
         ELSE IF p.stop THEN [q |-> p.q, ret |-> StopP] ELSE NextP(p.q, fuel - 1)
\* one step of the generator returned by do_level() that was started at level counter `lv0`
DlNext(q, lv0, fuel) ==
  IF q.levels # lv0 THEN [q |-> q, ret |-> EndP]
  ELSE LET r == NextP(q, fuel) IN
       IF r.ret = StopP THEN [q |-> r.q, ret |-> IF r.q.levels = lv0 THEN ErrP ELSE EndP] ELSE r

\* ======================= layer 2: the property (C16) ==================================
\* Ghost record: only what a user of the queue can see.
\*   handed  : sequence of work packets handed out (by next or by do_level)
\*   added   : labels ever added;   xstopped : labels told to stop (stop-yielding or verified)
\*   xmarked : labels marked not-inferrable from outside;  mba : ... before their first add
\*   dry     : the last next signalled exhaustion and nothing was added since
\*   dl      : -1, or the level counter at which the running do_level generator started
\*   lv      : the level counter (levels_completed) after the last call
InitG == [handed |-> <<>>, added |-> {}, xstopped |-> {}, xmarked |-> {}, mba |-> {}, dry |-> FALSE, dl |-> -1, lv |-> 0]
Rest(l) == [i \in 1..NInit |-> InitP(l, i)] \o
           FlattenSeq([s \in 1..NSets |-> [i \in 1..Exp[s] |-> ExpP(l, s, i)]])
WithInf(l) == <<InfP(l)>> \o Rest(l)
Stream(h, l) == SelectSeq(h, LAMBDA p : p.l = l)
\* the complete streams a label may end up with
Allowed(g, l) == IF NInf = 0 \/ l \in g.mba THEN {Rest(l)}
                 ELSE IF l \in g.xmarked THEN {Rest(l), WithInf(l)} ELSE {WithInf(l)}
\* while running, a label's stream must be a prefix of a stream it may still end up with
Possible(g, l) == IF NInf = 0 \/ l \in g.mba THEN {Rest(l)} ELSE {Rest(l), WithInf(l)}

\* e = [op, a, ret, lv]   (lv = level counter after the call)
GhostStep0(g, e) ==
  CASE e.op = "add"      -> [g EXCEPT !.added = @ \cup {e.a}, !.dry = FALSE]
    [] e.op \in {"stop", "verified"} -> [g EXCEPT !.xstopped = @ \cup {e.a}]
    [] e.op = "notinf"   -> [g EXCEPT !.xmarked = @ \cup {e.a}, !.mba = IF e.a \in g.added THEN @ ELSE @ \cup {e.a}]
    [] e.op = "next"     -> [g EXCEPT !.handed = IF IsWork(e.ret) THEN Append(@, e.ret) ELSE @,
                                      !.dry = (e.ret = StopP)]
    [] e.op = "dl_start" -> [g EXCEPT !.dl = e.lv]
    [] e.op = "dl_next"  -> [g EXCEPT !.handed = IF IsWork(e.ret) THEN Append(@, e.ret) ELSE @,
                                      !.dry = (e.ret = ErrP), !.dl = IF IsWork(e.ret) THEN @ ELSE -1]
    [] OTHER -> g
GhostStep(g, e) == [GhostStep0(g, e) EXCEPT !.lv = e.lv]

\* first violated clause of the property for event e observed in ghost state g ("ok" if none)
Clause(g, e) ==
  LET g2 == GhostStep(g, e) IN
  IF e.op \in {"next", "dl_next"} THEN
     CASE e.ret = FuelP -> "NextTerminates"
       [] IsWork(e.ret) /\ e.ret.l \in g.xstopped -> "P1_NoWorkForStoppedLabel"
       [] IsWork(e.ret) /\ \E j \in 1..Len(g.handed) : g.handed[j] = e.ret -> "P2_NoPacketTwice"
       [] IsWork(e.ret) /\ e.ret.l \notin g.added -> "P3_OnlyAddedLabels"
       [] IsWork(e.ret) /\ ~\E full \in Possible(g2, e.ret.l) : IsPrefix(Stream(g2.handed, e.ret.l), full)
            -> "P3_InferralThenInitialThenExpansionInOrder"
       [] IsWork(e.ret) /\ g.dry -> "P4_ExhaustionStableUntilAdd"
       [] e.ret \in {StopP, ErrP} /\ \E l \in g.added \ g.xstopped : Stream(g.handed, l) \notin Allowed(g, l)
            -> "P3_CompleteWhenDrained"
       [] e.op = "next" /\ ~(IsWork(e.ret) \/ e.ret = StopP) -> "NextReturnsPacketOrStop"
       [] e.op = "dl_next" /\ g.dl = -1 -> "P5_NoGeneratorRunning"
       [] e.op = "dl_next" /\ e.ret = EndP /\ ~(e.lv > g.dl) -> "P5_EndsOnlyAfterLevelAdvanced"
       [] e.op = "dl_next" /\ e.ret = ErrP /\ e.lv # g.dl -> "P5_ErrorOnlyIfDryBeforeLevelAdvanced"
       [] e.op = "dl_next" /\ IsWork(e.ret) /\ g.lv > g.dl -> "P5_YieldsOnlyUntilLevelAdvances"
       [] e.op = "dl_next" /\ ~(IsWork(e.ret) \/ e.ret \in {EndP, ErrP}) -> "P5_Outcome"
       [] OTHER -> "ok"
  ELSE "ok"
=============================================================================
