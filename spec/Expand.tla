------------------------------- MODULE Expand -------------------------------
(* Expanding the strategy-verified classes of a specification (C19).                              *)
(* An "expand" event records, for  new = old.expand_verified():                                     *)
(*   root_old, root_new        : the start classes                                                  *)
(*   with_pack                 : classes of `new` whose rule is a verification rule offering a pack  *)
(*   shared                    : number of rule objects (by identity, nested path links included)    *)
(*                               that `new` shares with `old`                                        *)
(*   old_before, old_after     : digest of `old` (rule descriptors, terms) before / after the call   *)
(* The rules and the enumeration of `new` are judged by SpecValid / WordUniverse as separate events.  *)
EXTENDS Naturals, Sequences
ExpandClause(e) ==
  CASE e.raised # "" -> "ExpandingVerifiedClassesSucceeds"
    [] e.root_new # e.root_old -> "ExpandedSpecificationHasTheSameStartClass"
    [] e.with_pack # <<>> -> "NoVerifiedClassOfferingAPackRemains"
    [] e.shared # 0 -> "ExpandedSpecificationSharesNoRuleObjectWithTheOriginal"
    [] e.old_before # e.old_after -> "OriginalSpecificationIsLeftUnchanged"
    [] OTHER -> "ok"
\* An "expand_one" event records  new = old.expand_comb_class(target, pack, ...)  for one verified class, named by its label
\* or by an equal (not identical) class object (`how`): the class itself must be expanded (its rule in `new` is no longer a
\* verification rule offering a pack); other verified classes may remain.
ExpandOneClause(e) ==
  CASE e.raised # "" -> "ExpandingVerifiedClassesSucceeds"
    [] e.root_new # e.root_old -> "ExpandedSpecificationHasTheSameStartClass"
    [] e.target_still_verified -> "TheNamedClassIsExpanded"
    [] e.shared # 0 -> "ExpandedSpecificationSharesNoRuleObjectWithTheOriginal"
    [] e.old_before # e.old_after -> "OriginalSpecificationIsLeftUnchanged"
    [] OTHER -> "ok"
=============================================================================
