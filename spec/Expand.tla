------------------------------- MODULE Expand -------------------------------
(* Expanding the strategy-verified classes of a specification (C19).                              *)
(* An "expand" event records, for  new = old.expand_verified():                                     *)
(*   root_old, root_new        : the start classes                                                  *)
(*   with_pack                 : classes of `new` whose rule is a verification rule offering a pack  *)
(*   shared                    : number of rule objects (by identity, nested path links included)    *)
(*                               that `new` shares with `old`                                        *)
(*   old_before, old_after     : digest of `old` (rule descriptors, terms) before / after the call   *)
(* The rules and the enumeration of `new` are judged by SpecValid / WordUniverse as separate events.  *)
EXTENDS Naturals, Sequences
ExpandClause(e) ==
  CASE e.raised # "" -> "ExpandingVerifiedClassesSucceeds"
    [] e.root_new # e.root_old -> "ExpandedSpecificationHasTheSameStartClass"
    [] e.with_pack # <<>> -> "NoVerifiedClassOfferingAPackRemains"
    [] e.shared # 0 -> "ExpandedSpecificationSharesNoRuleObjectWithTheOriginal"
    [] e.old_before # e.old_after -> "OriginalSpecificationIsLeftUnchanged"
    [] OTHER -> "ok"
=============================================================================
