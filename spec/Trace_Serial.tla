----------------------------- MODULE Trace_Serial -----------------------------
(* Batch trace monitor for C18.  {tid, ne:[non-empty class names], events:[...]}                   *)
(*   rule     : desc (abstract form tree of the rule), wire (the emitted dictionary, projected: class *)
(*              and strategy sub-dictionaries replaced by the names of the objects they decode to),   *)
(*              keys (top-level keys emitted), redesc (form tree of the reloaded rule), eq (== result)  *)
(*   spec     : descs / redescs (form trees of the rules before and after the round trip), eq           *)
(*   pack     : slots / reslots (strategy ids per slot), eq                                             *)
(*   strategy : a, b = [kind, settings] of two instances, how (how b was obtained), eq (a == b)         *)
EXTENDS Serial, Json, IOUtils
Traces == ndJsonDeserialize(IOEnv.TRACE_FILE)
VARIABLES t, l
vars == <<t, l>>
SeqSetT(s) == {s[i] : i \in 1..Len(s)}
Clause(tr, e) ==
  CASE e.op = "rule" ->
         CASE e.wire # Enc(e.desc) -> "EmittedDictionaryFollowsTheWireFormatOfTheRuleForm"
           [] SeqSetT(e.keys) # KeysOf(e.desc.form) -> "EmittedDictionaryHasExactlyTheKeysOfTheRuleForm"
           [] Dec(e.wire, SeqSetT(tr.ne)) # e.desc -> "WireFormatDecodesToTheSameRule"
           [] e.redesc # e.desc -> "ReloadedRuleHasTheSameFormClassesAndStrategy"
           [] e.eq # "T" -> "ReloadedRuleEqualsTheOriginal"
           [] OTHER -> "ok"
    [] e.op = "spec" ->
         CASE SeqSetT(e.redescs) # SeqSetT(e.descs) -> "ReloadedSpecificationHasTheSameRulesForTheSameClasses"
           [] e.eq # "T" -> "ReloadedSpecificationEqualsTheOriginal"
           [] OTHER -> "ok"
    [] e.op = "pack" ->
         CASE e.reslots # e.slots -> "ReloadedPackHasTheSameStrategiesInTheSameSlots"
           [] e.eq # "T" -> "ReloadedPackEqualsTheOriginal"
           [] OTHER -> "ok"
    [] e.op = "strategy" ->
         IF (e.eq = "T") # StratEq(e.a, e.b) THEN "StrategyEqualityDependsOnlyOnKindAndSettings" ELSE "ok"
    [] OTHER -> "UnknownEvent"
Init == t = 1 /\ l = 1 /\ TLCSet(1, 0)
Step == /\ t <= Len(Traces) /\ l <= Len(Traces[t].events)
        /\ LET c == Clause(Traces[t], Traces[t].events[l]) IN
             IF c = "ok" THEN l' = l + 1 /\ t' = t
             ELSE PrintT(<<"REJECT", Traces[t].tid, l, c>>) /\ t' = t + 1 /\ l' = 1
Finish == /\ t <= Len(Traces) /\ l > Len(Traces[t].events)
          /\ TLCSet(1, TLCGet(1) + 1) /\ t' = t + 1 /\ l' = 1
Next == Step \/ Finish
Spec == Init /\ [][Next]_vars
Post == PrintT(<<"ACCEPTED", TLCGet(1), "OF", Len(Traces)>>)
=============================================================================
