-------------------------- MODULE Trace_SearchLoop --------------------------
(* Trace validation of the whole expand / check loop against Search.tla: one recorded search per run  *)
(* (the universe U below is rewritten by the harness from the classes that search touched).            *)
(*  trace (single JSON object in IOEnv.TRACE_FILE, one line):                                           *)
(*   {tid, events:[{op:"packet", l, k, s, i, kind, nrules, nlabels} | {op:"check", ans}]}                     *)
(* Every event must be the corresponding action of Search.tla with the logged values: the packet handed *)
(* out (label, slot), whether it was expanded, skipped (verified label) or the queue was exhausted, the  *)
(* number of stored rule keys and of labels afterwards; the answer of every specification check.        *)
EXTENDS Naturals, Sequences, FiniteSets, TLC, Json, IOUtils
R(par, ch, pe, ip, wk, tw, rv, sh, nf) == [par |-> par, ch |-> ch, pe |-> pe, ip |-> ip, wk |-> wk, tw |-> tw, rv |-> rv, sh |-> sh, nf |-> nf]
U == [start |-> 0, empty |-> {}, verified |-> {1}, ninf |-> 0, ninit |-> 1, nexps |-> <<1>>, nsym |-> 0, flavour |-> "base", reverse |-> FALSE, iterative |-> FALSE, inferral |-> <<>>, symm |-> <<>>, initial |-> (2 :> << <<R(2, <<1, 0>>, FALSE, TRUE, TRUE, TRUE, TRUE, <<0, 1>>, TRUE)>> >>), expand |-> (0 :> << << <<R(0, <<1, 2>>, TRUE, FALSE, TRUE, TRUE, TRUE, <<0, 0>>, TRUE)>> >> >>)] \* @UNIVERSE@
VARIABLES store, empt, q, rules, keys, marks, tried, infx, symx, expanded, skipped, phase, checks, i
INSTANCE Search
Trace == ndJsonDeserialize(IOEnv.TRACE_FILE)[1]
Ev == Trace.events
NKeys(s) == IF U.flavour = "forest" THEN Cardinality(s.keys) ELSE Cardinality({<<r.s, r.e>> : r \in s.rules})
TInit == SInit /\ i = 1
TPacket == /\ i <= Len(Ev) /\ Ev[i].op = "packet"
           /\ LET r == PacketStep(Cur) IN
              /\ r.kind = Ev[i].kind
              /\ (r.kind # "stop" => r.p.l = Ev[i].l /\ r.p.k = Ev[i].k /\ r.p.s = Ev[i].s /\ r.p.i = Ev[i].i)
              /\ NKeys(r.s) = Ev[i].nrules /\ Len(r.s.store) = Ev[i].nlabels
           /\ Packet /\ i' = i + 1
TCheck == /\ i <= Len(Ev) /\ Ev[i].op = "check"
          /\ HasSpecS(Cur) = Ev[i].ans
          /\ Check /\ i' = i + 1
TNext == TPacket \/ TCheck
\* accepted iff the whole trace was consumed
Consumed == i = Len(Ev) + 1
Accepted == TLCGet("stats").diameter - 1 = Len(Ev)
Post == PrintT(<<"ACCEPTED", IF Accepted THEN 1 ELSE 0, "OF", 1>>) /\ (Accepted \/ PrintT(<<"REJECT", Trace.tid, TLCGet("stats").diameter, "LoopStepIsABehaviourOfTheSearchSpecification">>))
=============================================================================
