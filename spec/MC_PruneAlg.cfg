CONSTANTS NL = 2 MaxPer = 2 MaxArity = 2
SPECIFICATION Spec
INVARIANT PruneEndsInGfp
INVARIANT IterEndsInDerivable
CHECK_DEADLOCK FALSE
