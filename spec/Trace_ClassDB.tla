--------------------------- MODULE Trace_ClassDB ---------------------------
(* Batch trace monitor: judges recorded executions of the real ClassDB against ClassDB.tla. *)
(* One JSON object per line of IOEnv.TRACE_FILE:                                             *)
(*   {tid, te:[truly empty classes], events:[{op,kc,c,l,b, ret:{k,i,c[,store]}}]}           *)
(* Verdicts are total: a rejected trace prints <<"REJECT", tid, eventIndex, clause>>.        *)
EXTENDS ClassDB, TLC, Json, IOUtils
Traces == ndJsonDeserialize(IOEnv.TRACE_FILE)
VARIABLES t, l, st
vars == <<t, l, st>>
Start(i) == IF i <= Len(Traces) THEN InitDB(ToSet(Traces[i].te)) ELSE InitDB({})
Match(s, e) == {r \in Outcomes(s, e) : r.ret = e.ret}
Clause(s, e) ==
  LET m == Match(s, e) IN
  IF m = {} THEN ClauseOf(s, e)
  ELSE LET r == CHOOSE x \in m : TRUE IN
       CASE ~Injective(r.st)         -> "Injective"
         [] ~CacheTruthful(r.st)     -> "CachedEmptinessTruthful"
         [] ~AppendOnlyStep(s, r.st) -> "AppendOnly"
         [] OTHER                    -> "ok"
Init == t = 1 /\ l = 1 /\ st = Start(1) /\ TLCSet(1, 0)
Step == /\ t <= Len(Traces) /\ l <= Len(Traces[t].events)
        /\ LET e == Traces[t].events[l]  c == Clause(st, e) IN
             IF c = "ok" THEN /\ st' = (CHOOSE x \in Match(st, e) : TRUE).st /\ l' = l + 1 /\ t' = t
             ELSE /\ PrintT(<<"REJECT", Traces[t].tid, l, c>>)
                  /\ t' = t + 1 /\ l' = 1 /\ st' = Start(t + 1)
Finish == /\ t <= Len(Traces) /\ l > Len(Traces[t].events)
          /\ TLCSet(1, TLCGet(1) + 1)
          /\ t' = t + 1 /\ l' = 1 /\ st' = Start(t + 1)
Next == Step \/ Finish
Spec == Init /\ [][Next]_vars
Post == PrintT(<<"ACCEPTED", TLCGet(1), "OF", Len(Traces)>>)
=============================================================================
