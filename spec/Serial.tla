------------------------------- MODULE Serial -------------------------------
(* JSON round trips (C18), structurally.  A rule is an abstract form tree                          *)
(*   [form, parent, children, strat, idx, orig (<<>> or <<tree>>), rules (<<trees>>)]               *)
(* and its wire format is a record whose key set depends on the form:                               *)
(*   Rule                {rule_class, comb_class, children, strategy}                                *)
(*   VerificationRule    {rule_class, comb_class, strategy}                                          *)
(*   EquivalenceRule     {rule_class, original_rule}                                                 *)
(*   EquivalencePathRule {rule_class, rules}                                                         *)
(*   ReverseRule         {rule_class, original_rule, idx}                                            *)
(* (every dictionary also carries class_module, which names the Python module and is not modelled). *)
(* Enc / Dec are the two directions; TLC checks Dec(Enc(r)) = r on all well-formed trees of bounded  *)
(* depth (MC_Serial).  Strategy equality depends on kind and settings only.                          *)
EXTENDS Naturals, Integers, Sequences, FiniteSets, TLC
DropAtS(s, i) == SubSeq(s, 1, i - 1) \o SubSeq(s, i + 1, Len(s))
T(form, parent, children, strat, idx, orig, rules) ==
  [form |-> form, parent |-> parent, children |-> children, strat |-> strat, idx |-> idx, orig |-> orig, rules |-> rules]
\* derived forms are determined by what they derive from (NE = the set of non-empty classes)
MkEquiv(o, NE) == T("equiv", o.parent, SelectSeq(o.children, LAMBDA c : c \in NE), o.strat, 0, <<o>>, <<>>)
MkReverse(o, i) == T("reverse", o.children[i + 1], <<o.parent>> \o DropAtS(o.children, i + 1), o.strat, i, <<o>>, <<>>)
MkPath(rs) == T("path", rs[1].parent, rs[Len(rs)].children, rs[1].strat, 0, <<>>, rs)
RECURSIVE Enc(_)
Enc(r) ==
  CASE r.form = "rule"         -> [rule_class |-> "Rule", comb_class |-> r.parent, children |-> r.children, strategy |-> r.strat]
    [] r.form = "verification" -> [rule_class |-> "VerificationRule", comb_class |-> r.parent, strategy |-> r.strat]
    [] r.form = "equiv"        -> [rule_class |-> "EquivalenceRule", original_rule |-> Enc(r.orig[1])]
    [] r.form = "path"         -> [rule_class |-> "EquivalencePathRule", rules |-> [i \in 1..Len(r.rules) |-> Enc(r.rules[i])]]
    [] r.form = "reverse"      -> [rule_class |-> "ReverseRule", original_rule |-> Enc(r.orig[1]), idx |-> r.idx]
RECURSIVE Dec(_, _)
Dec(j, NE) ==
  CASE j.rule_class = "Rule"                -> T("rule", j.comb_class, j.children, j.strategy, 0, <<>>, <<>>)
    [] j.rule_class = "VerificationRule"    -> T("verification", j.comb_class, <<>>, j.strategy, 0, <<>>, <<>>)
    [] j.rule_class = "EquivalenceRule"     -> MkEquiv(Dec(j.original_rule, NE), NE)
    [] j.rule_class = "EquivalencePathRule" -> MkPath([i \in 1..Len(j.rules) |-> Dec(j.rules[i], NE)])
    [] j.rule_class = "ReverseRule"         -> MkReverse(Dec(j.original_rule, NE), j.idx)
\* expected key set of the emitted dictionary (class_module included)
KeysOf(form) ==
  CASE form = "rule"         -> {"class_module", "rule_class", "comb_class", "children", "strategy"}
    [] form = "verification" -> {"class_module", "rule_class", "comb_class", "strategy"}
    [] form = "equiv"        -> {"class_module", "rule_class", "original_rule"}
    [] form = "path"         -> {"class_module", "rule_class", "rules"}
    [] form = "reverse"      -> {"class_module", "rule_class", "original_rule", "idx"}
\* ---- strategies: equality depends only on kind and settings
StratEq(a, b) == a.kind = b.kind /\ a.settings = b.settings
=============================================================================
