CONSTANTS NC = 2 MaxShift = 1 MaxArity = 2 MaxRules = 2 EmitMode = "final"
SPECIFICATION Spec
INVARIANT KleeneEqChaotic
INVARIANT CapAdequate
INVARIANT EmitFinal
PROPERTY Monotone
CHECK_DEADLOCK FALSE
