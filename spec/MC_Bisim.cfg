CONSTANT MaxAr = 2
CONSTANT Sample = 10
INIT Init
NEXT Next
INVARIANT GreedyIsExact
INVARIANT ResultIsABisimulation
INVARIANT Reflexive
INVARIANT Symmetric
CHECK_DEADLOCK FALSE
