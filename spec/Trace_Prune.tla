----------------------------- MODULE Trace_Prune -----------------------------
(* Batch trace monitor for pruning, specification detection and proof-tree search.               *)
(*  {tid, events:[{op, rd, root, res, tree, m, cnt, finder, rules, iter, ans}]}                   *)
(*   prune      : res = prune(rd)                                                                 *)
(*   iter_prune : res = iterative_prune(rd, root)                                                 *)
(*   tree       : tree returned by `finder` on the (pruned) dictionary rd for root; m = size cap  *)
(*                or -1                                                                            *)
(*   dfs_max    : cnt = number of trees the depth-first generator yields with maximum = m          *)
(*   smallest   : tree returned by the 'smallest' option                                           *)
(*   hasspec    : ans = has_specification() of a rule database holding `rules`, start label root,  *)
(*                iterative pack iff iter                                                           *)
EXTENDS RuleDB, Json, IOUtils
Traces == ndJsonDeserialize(IOEnv.TRACE_FILE)
VARIABLES t, l
vars == <<t, l>>
IterFinders == {"iterative_proof_tree_finder", "iterative_proof_tree_bfs"}
Clause(e) ==
  CASE e.op = "prune" ->
         LET d == FromList(e.rd)  got == FromList(e.res)  want == Pruned(d) IN
         IF DOMAIN got # DOMAIN want THEN "SurvivorsEqualGreatestFixedPoint"
         ELSE IF got # want THEN "PrunedRulesAreExactlyTheSupportedOnes" ELSE "ok"
    [] e.op = "iter_prune" ->
         LET d == FromList(e.rd)  got == FromList(e.res)  want == IterPruned(d, e.root) IN
         IF DOMAIN got # DOMAIN want THEN "IterativeSurvivorsEqualBottomUpDerivable"
         ELSE IF got # want THEN "IterativePrunedRulesAreExactlyTheDerivingOnes" ELSE "ok"
    [] e.op = "tree" ->
         LET d == FromList(e.rd)
             c == IF e.finder \in IterFinders THEN IterTreeClause(e.tree, d, e.root) ELSE ProofTreeClause(e.tree, d, e.root)
         IN IF c # "ok" THEN c
            ELSE IF e.m >= 0 /\ TreeSize(e.tree) > e.m THEN "TreeWithinRequestedMaximum" ELSE "ok"
    [] e.op = "dfs_max" ->
         LET d == FromList(e.rd)  ex == HasTree(d, e.root) /\ MinSize(d, e.root) <= e.m IN
         IF (e.cnt > 0) # ex THEN "GeneratorFindsTreeIffMaximumAtLeastMinimumSize" ELSE "ok"
    [] e.op = "smallest" ->
         LET d == FromList(e.rd)  c == ProofTreeClause(e.tree, d, e.root) IN
         IF c # "ok" THEN c
         ELSE IF TreeSize(e.tree) # MinSize(d, e.root) THEN "SmallestReturnsMinimumSizeTree" ELSE "ok"
    [] e.op = "hasspec" ->
         IF e.ans # HasSpec(ToSet(e.rules), e.root, e.iter)
         THEN (IF e.iter THEN "SpecificationReportedIffIterativelyDerivable" ELSE "SpecificationReportedIffSurvivesPruning")
         ELSE "ok"
    [] OTHER -> "UnknownEvent"
Init == t = 1 /\ l = 1 /\ TLCSet(1, 0)
Step == /\ t <= Len(Traces) /\ l <= Len(Traces[t].events)
        /\ LET c == Clause(Traces[t].events[l]) IN
             IF c = "ok" THEN l' = l + 1 /\ t' = t
             ELSE PrintT(<<"REJECT", Traces[t].tid, l, c>>) /\ t' = t + 1 /\ l' = 1
Finish == /\ t <= Len(Traces) /\ l > Len(Traces[t].events)
          /\ TLCSet(1, TLCGet(1) + 1) /\ t' = t + 1 /\ l' = 1
Next == Step \/ Finish
Spec == Init /\ [][Next]_vars
Post == PrintT(<<"ACCEPTED", TLCGet(1), "OF", Len(Traces)>>)
=============================================================================
