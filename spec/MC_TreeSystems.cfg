CONSTANT NI = 2
CONSTANT MaxAr = 2
CONSTANT MaxN = 3
CONSTANT Sample = 0
INIT Init
NEXT Next
INVARIANT Emit
CHECK_DEADLOCK FALSE
