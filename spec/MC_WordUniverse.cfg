CONSTANTS K = 2 N = 6 MaxPatLen = 3 MaxPre = 2
SPECIFICATION Spec
INVARIANT CountsAgree
INVARIANT EmptyIffNoObjects
CHECK_DEADLOCK FALSE
