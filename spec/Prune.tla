-------------------------------- MODULE Prune --------------------------------
(* Pruning-based specification detection and proof trees (tree_searcher.py, rule_db/base.py).   *)
(*                                                                                              *)
(* A rule dictionary rd is a function  label -> set of rules; a rule is a sequence of child     *)
(* labels (sorted, possibly with repetitions, <<>> for a verified leaf).                        *)
(* A proof tree is a nested record [l |-> label, ch |-> <<subtrees>>].                          *)
EXTENDS Naturals, Integers, Sequences, FiniteSets, FiniteSetsExt, SequencesExt, TLC

Rng(s) == {s[i] : i \in 1..Len(s)}
Keys(rd) == DOMAIN rd
RestrictRd(rd, S) == [k \in S |-> {r \in rd[k] : Rng(r) \subseteq S}]
NonEmptyKeys(rd) == {k \in DOMAIN rd : rd[k] # {}}

\* ---- greatest fixed point: labels that survive pruning --------------------------------------
RECURSIVE GfpIter(_, _)
GfpIter(rd, S) == LET S2 == {k \in S : \E r \in rd[k] : Rng(r) \subseteq S} IN
                  IF S2 = S THEN S ELSE GfpIter(rd, S2)
Gfp(rd) == GfpIter(rd, DOMAIN rd)
\* the same by its definition: the union of all self-supporting label sets (for small rd only)
SelfSupporting(rd, S) == \A k \in S : \E r \in rd[k] : Rng(r) \subseteq S
GfpDef(rd) == UNION {S \in SUBSET (DOMAIN rd) : SelfSupporting(rd, S)}
\* what prune() must leave behind
Pruned(rd) == RestrictRd(rd, Gfp(rd))

\* ---- iterative derivability: bottom-up, recursion allowed to `root` only -------------------
RECURSIVE IterUp(_, _, _)
IterUp(rd, root, D) == LET D2 == D \cup {k \in DOMAIN rd : \E r \in rd[k] : Rng(r) \subseteq D \cup {root}} IN
                       IF D2 = D THEN D ELSE IterUp(rd, root, D2)
IterDerivableSet(rd, root) == IterUp(rd, root, {})
IterDerivable(rd, root) == root \in IterDerivableSet(rd, root)
\* by definition: the intersection of all sets closed under "some rule has all children inside (or = root)"
IterClosed(rd, root, D) == \A k \in DOMAIN rd : (\E r \in rd[k] : Rng(r) \subseteq D \cup {root}) => k \in D
IterDef(rd, root) == {k \in DOMAIN rd : \A D \in SUBSET (DOMAIN rd) : IterClosed(rd, root, D) => k \in D}
\* what iterative_prune() must return
IterPruned(rd, root) == LET D == IterDerivableSet(rd, root) IN [k \in D |-> {r \in rd[k] : Rng(r) \subseteq D \cup {root}}]

\* ---- proof trees ---------------------------------------------------------------------------
RECURSIVE TreeSize(_), SumSizes(_)
TreeSize(t) == 1 + SumSizes(t.ch)
SumSizes(s) == IF s = <<>> THEN 0 ELSE TreeSize(Head(s)) + SumSizes(Tail(s))
RECURSIVE TreeNodes(_)
TreeNodes(t) == {t} \cup UNION {TreeNodes(t.ch[i]) : i \in 1..Len(t.ch)}
ChildLabels(n) == SortSeq([i \in 1..Len(n.ch) |-> n.ch[i].l], LAMBDA a, b : a < b)
TreeLabels(t) == {n.l : n \in TreeNodes(t)}
\* for each label, the set of (sorted) child tuples used by the internal nodes carrying it
Expansions(t, L) == {ChildLabels(n) : n \in {n \in TreeNodes(t) : n.l = L /\ n.ch # <<>>}}

\* first violated clause ("ok" if none) of: "uses only recorded rules, gives each class one rule,
\* leaves no class without a rule"
ProofTreeClause(t, rd, root) ==
  CASE t.l # root -> "TreeRootIsStartClass"
    [] \E L \in TreeLabels(t) : L \notin DOMAIN rd -> "TreeUsesOnlyRecordedRules"
    [] \E L \in TreeLabels(t) : ~(Expansions(t, L) \subseteq rd[L]) -> "TreeUsesOnlyRecordedRules"
    [] \E L \in TreeLabels(t) : Cardinality(Expansions(t, L)) > 1 -> "TreeGivesEachClassOneRule"
    [] \E L \in TreeLabels(t) : Expansions(t, L) = {} /\ <<>> \notin rd[L] -> "TreeLeavesNoClassWithoutRule"
    [] OTHER -> "ok"
\* iterative proof trees: a leaf is a verified leaf or a recursion to the root, nothing else
IterTreeClause(t, rd, root) ==
  CASE t.l # root -> "TreeRootIsStartClass"
    [] \E L \in TreeLabels(t) : L \notin DOMAIN rd -> "TreeUsesOnlyRecordedRules"
    [] \E L \in TreeLabels(t) : ~(Expansions(t, L) \subseteq rd[L]) -> "TreeUsesOnlyRecordedRules"
    [] \E L \in TreeLabels(t) : Cardinality(Expansions(t, L)) > 1 -> "TreeGivesEachClassOneRule"
    [] \E n \in TreeNodes(t) : n.ch = <<>> /\ n.l # root /\ <<>> \notin rd[n.l] -> "IterativeTreeRecursesOnlyToStartClass"
    [] Expansions(t, root) = {} /\ <<>> \notin rd[root] -> "TreeLeavesNoClassWithoutRule"
    [] OTHER -> "ok"

\* ---- minimum size among all proof trees ---------------------------------------------------
\* a tree is determined (up to order) by a selection of one rule per label; every label is
\* expanded once, later occurrences are leaves: size = 1 + sum of the arities of the labels reached
RECURSIVE SelRec(_, _)
SelRec(rd, ks) == IF ks = {} THEN {<<>>}
                  ELSE LET k == CHOOSE x \in ks : TRUE IN {f @@ (k :> r) : f \in SelRec(rd, ks \ {k}), r \in rd[k]}
Selections(rd) == SelRec(rd, DOMAIN rd)
RECURSIVE SumArity(_, _)
SumArity(sel, ks) == IF ks = {} THEN 0 ELSE LET k == CHOOSE x \in ks : TRUE IN Len(sel[k]) + SumArity(sel, ks \ {k})
RECURSIVE SelReach(_, _, _)
SelReach(sel, frontier, seen) ==
  IF frontier = {} THEN seen
  ELSE LET nxt == UNION {Rng(sel[k]) : k \in frontier} \ seen IN SelReach(sel, nxt, seen \cup nxt)
SelValid(rd, sel, root) == SelReach(sel, {root}, {root}) \subseteq DOMAIN rd
SelSize(sel, root) == 1 + SumArity(sel, SelReach(sel, {root}, {root}))
HasTree(rd, root) == root \in DOMAIN rd /\ \E sel \in Selections(rd) : SelValid(rd, sel, root)
MinSize(rd, root) == Min({SelSize(sel, root) : sel \in {s \in Selections(rd) : SelValid(rd, s, root)}})

\* ---- rule dictionaries as they arrive from JSON: sequence of [k |-> label, rs |-> <<rules>>] ----
FromList(lst) == [k \in {lst[i].k : i \in 1..Len(lst)} |->
                     UNION {ToSet(lst[i].rs) : i \in {i \in 1..Len(lst) : lst[i].k = k}}]
=============================================================================
