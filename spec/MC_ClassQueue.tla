--------------------------- MODULE MC_ClassQueue ---------------------------
(* Model-checking wrapper: the implementation-shaped queue driven by every interleaving of    *)
(* add / stop-yielding / verified / not-inferrable / next / do_level steps; the property       *)
(* clauses of ClassQueue.tla are evaluated on every transition (variable `bad`).               *)
EXTENDS Naturals, Integers, Sequences, FiniteSets, SequencesExt, TLC, Json
CONSTANTS NInf, NInit, NL, MaxDepth, EmitMode
Exp == <<1>> \* @EXP@ (rewritten by the harness per pack shape)
INSTANCE ClassQueue
Labels == 0..(NL - 1)
Fuel == 800
VARIABLES q, g, hist, last, bad
vars == <<q, g, hist, last, bad>>
Ev(op, a, ret, lv) == [op |-> op, a |-> a, ret |-> ret, lv |-> lv]
Init == q = InitQ /\ g = InitG /\ hist = <<>> /\ last = Ev("init", -1, NoneP, 0) /\ bad = "ok"
Do(q2, e) == /\ q' = q2 /\ g' = GhostStep(g, e) /\ bad' = Clause(g, e)
             /\ last' = e /\ hist' = Append(hist, [op |-> e.op, a |-> e.a])
Next ==
  /\ Len(hist) < MaxDepth /\ bad = "ok"
  /\ \/ \E l \in Labels :
          \/ Do(Add(q, l), Ev("add", l, NoneP, q.levels))
          \/ Do(SetStop(q, l), Ev("stop", l, NoneP, q.levels))
          \/ Do(SetVerified(q, l), Ev("verified", l, NoneP, q.levels))
          \/ Do(SetNotInf(q, l), Ev("notinf", l, NoneP, q.levels))
     \/ LET r == NextP(q, Fuel) IN Do(r.q, Ev("next", -1, r.ret, r.q.levels))
     \/ g.dl = -1 /\ Do(q, Ev("dl_start", -1, NoneP, q.levels))
     \/ g.dl # -1 /\ LET r == DlNext(q, g.dl, Fuel) IN Do(r.q, Ev("dl_next", -1, r.ret, r.q.levels))
Spec == Init /\ [][Next]_vars
ViewCheck == <<q, g, bad>>
ViewCover == <<q, g.dl, last>>
\* C16 on the model: no transition violates a clause; the recursion bound is never hit
PropertyHolds == bad = "ok"
NoFuel == last.ret # FuelP
\* structural sanity of the transcription
StagingOnlyWork == \A i \in 1..Len(q.staging) : IsWork(q.staging[i])
EmitAll   == (EmitMode = "all" /\ hist # <<>>) => PrintT(<<"H", ToJson(hist)>>)
EmitFinal == (EmitMode = "final" /\ Len(hist) = MaxDepth) => PrintT(<<"H", ToJson(hist)>>)
=============================================================================
