CONSTANTS MaxDepth = 30 EmitHist = TRUE
SPECIFICATION Spec
VIEW View
INVARIANT InvInjective
INVARIANT InvSameLength
INVARIANT InvCacheTruthful
INVARIANT InvDense
INVARIANT Emit
PROPERTY AppendOnly
PROPERTY StableLabels
CHECK_DEADLOCK FALSE
