---------------------------- MODULE WordUniverse ----------------------------
(* Ground truth of the fixture universe W, defined from scratch (no library code involved).     *)
(* A class is a record                                                                           *)
(*   [pre |-> <<letters>>, pats |-> <<patterns>>, k |-> alphabet size, jp |-> just the prefix?,   *)
(*    stats |-> <<letter sets as sequences>>]                                                     *)
(* letters are 1..k.  Its objects of size n are the words of length n over 1..k that start with  *)
(* pre and contain no pattern as a consecutive factor (only the word pre itself when jp).         *)
(* Statistic j of a word = number of its letters lying in stats[j].                               *)
EXTENDS Naturals, Integers, Sequences, FiniteSets, FiniteSetsExt, SequencesExt

SeqSetW(s) == {s[i] : i \in 1..Len(s)}
WordsOfLen(k, n) == [1..n -> 1..k]
StartsWith(w, p) == Len(p) <= Len(w) /\ \A i \in 1..Len(p) : w[i] = p[i]
HasFactor(w, p) == \E s \in 0..(Len(w) - Len(p)) : \A i \in 1..Len(p) : w[s + i] = p[i]
Avoids(w, pats) == \A j \in 1..Len(pats) : ~HasFactor(w, pats[j])
Objs(c, n) ==
  IF c.jp THEN (IF n = Len(c.pre) /\ Avoids(c.pre, c.pats) THEN {c.pre} ELSE {})
  ELSE IF n < Len(c.pre) THEN {}
  ELSE {w \in WordsOfLen(c.k, n) : StartsWith(w, c.pre) /\ Avoids(w, c.pats)}
TrulyEmpty(c) == ~Avoids(c.pre, c.pats)
StatOf(w, L) == Cardinality({i \in 1..Len(w) : w[i] \in L})
ParamsOf(c, w) == [j \in 1..Len(c.stats) |-> StatOf(w, SeqSetW(c.stats[j]))]
\* the enumeration of size n as a set of <<parameter tuple, count>> pairs (counts > 0 only)
TrueTerms(c, n) ==
  LET O == Objs(c, n)  P == {ParamsOf(c, w) : w \in O}
  IN {<<p, Cardinality({w \in O : ParamsOf(c, w) = p})>> : p \in P}
TrueCount(c, n) == Cardinality(Objs(c, n))
\* terms as they arrive from JSON: sequence of <<params, count>>; zero entries carry no information
ObservedTerms(ts) == {<<ts[i][1], ts[i][2]>> : i \in {i \in 1..Len(ts) : ts[i][2] # 0}}

\* ---- a second, independent definition of the plain counts: transfer-matrix / dynamic programming
\* over the last m-1 letters (m = longest pattern); used for large n where brute force is too big
MaxPat(c) == Max({1} \cup {Len(c.pats[j]) : j \in 1..Len(c.pats)})
Suffix(w, m) == IF Len(w) <= m THEN w ELSE SubSeq(w, Len(w) - m + 1, Len(w))
EndsWithPattern(w, pats) == \E j \in 1..Len(pats) : Len(pats[j]) >= 1 /\ Len(pats[j]) <= Len(w)
                               /\ SubSeq(w, Len(w) - Len(pats[j]) + 1, Len(w)) = pats[j]
DPStates(c) == UNION {WordsOfLen(c.k, i) : i \in 0..(MaxPat(c) - 1)}
\* V[s] = number of ways to extend a word whose relevant suffix is s by r more letters
RECURSIVE DPVec(_, _)
DPVec(c, r) ==
  IF r = 0 THEN [s \in DPStates(c) |-> 1]
  ELSE LET V == DPVec(c, r - 1)  m == MaxPat(c) IN
       [s \in DPStates(c) |->
          LET ok == {a \in 1..c.k : ~EndsWithPattern(Append(s, a), c.pats)} IN
          FoldSet(LAMBDA a, acc : acc + V[Suffix(Append(s, a), m - 1)], 0, ok)]
DPCount(c, n) ==
  IF ~Avoids(c.pre, c.pats) THEN 0
  ELSE IF c.jp THEN (IF n = Len(c.pre) THEN 1 ELSE 0)
  ELSE IF n < Len(c.pre) THEN 0
  ELSE DPVec(c, n - Len(c.pre))[Suffix(c.pre, MaxPat(c) - 1)]
=============================================================================
