---------------------------- MODULE MC_ClassDB ----------------------------
(* Model-checking wrapper of ClassDB: every public call with every argument is one action. *)
(* The history variable is hidden by the VIEW, so TLC explores the abstract state graph     *)
(* (state = database + last operation) and `hist` is, by breadth-first search, a shortest   *)
(* path that reaches each distinct (state, operation): printing it at every distinct state *)
(* exports a transition cover of the graph, which the harness replays into the real code.   *)
EXTENDS ClassDB, TLC, Json
CONSTANTS MaxDepth, EmitHist
Classes == {"a", "b", "e"}
TE == {"e"}
Probes == -2..4
O(op, kc, c, l, b) == [op |-> op, kc |-> kc, c |-> c, l |-> l, b |-> b]
Ops == {O(op, "c", c, 0, FALSE) : op \in {"get_label", "get_class", "add", "contains", "is_empty"}, c \in Classes}
       \cup {O(op, "l", "", l, FALSE) : op \in {"get_label", "get_class", "contains"}, l \in Probes}
       \cup {O("observe", "", "", 0, FALSE)}
VARIABLES st, hist, last
vars == <<st, hist, last>>
NoOp == O("init", "", "", 0, FALSE)
\* set_empty / is_empty(class,label) are only called by the searcher with a label it obtained
\* for that class and with the class's true answer: that contract is the enabling condition
ContractOps(s) == {O("set_empty", "l", "", l, s.store[l + 1] \in TE) : l \in 0..(Len(s.store) - 1)}
                  \cup {O("set_empty", "c", c, 0, c \in TE) : c \in Classes}
                  \cup {O("is_empty", "cl", s.store[l + 1], l, FALSE) : l \in 0..(Len(s.store) - 1)}
Init == st = InitDB(TE) /\ hist = <<>> /\ last = NoOp
Next == /\ Len(hist) < MaxDepth
        /\ \E o \in Ops \cup ContractOps(st) : \E r \in Outcomes(st, o) :
              \* the tolerant second outcome of is_empty on an unknown class is not what the code does
              /\ (o.op = "is_empty" /\ o.kc = "c" /\ ~KnownC(st, o.c)) => r.ret = RKeyError
              /\ st' = r.st /\ last' = o /\ hist' = Append(hist, o)
Spec == Init /\ [][Next]_vars
View == <<st, last>>
\* ---- C15 on the model
InvInjective == Injective(st)
InvSameLength == SameLength(st)
InvCacheTruthful == CacheTruthful(st)
InvDense == \A c \in Classes : KnownC(st, c) => KnownL(st, LabelOf(st, c))
AppendOnly == [][AppendOnlyStep(st, st')]_vars
StableLabels == [][\A c \in Classes : KnownC(st, c) => (KnownC(st', c) /\ LabelOf(st', c) = LabelOf(st, c))]_vars
Emit == (EmitHist /\ hist # <<>>) => PrintT(<<"H", ToJson(hist)>>)
=============================================================================
