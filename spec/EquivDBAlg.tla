----------------------------- MODULE EquivDBAlg -----------------------------
(* Implementation-shaped specification of the equivalence database (equiv_db.py): union-find with  *)
(* weights, the set of verified roots, the adjacency table `vertices`, the table of one-way edges   *)
(* between representatives (which may be stale), and connect_cycles as the depth-first search with   *)
(* an explicit stack of paths.  Each iteration of the `while stack` loop is one action, and the      *)
(* orders that depend on Python's dict / set iteration (initial stack, successors of a vertex) are   *)
(* chosen nondeterministically, so TLC explores every order.                                         *)
(* MC_EquivDBAlg checks the refinement: whenever no cycle detection is running, the partition given   *)
(* by the union-find refines the strongly connected components of the recorded edges and, after a    *)
(* detection with no edge added since, equals them; a class is verified iff one of its labels was     *)
(* marked (EquivDB.tla is the abstract side).                                                        *)
EXTENDS Naturals, Integers, Sequences, FiniteSets, FiniteSetsExt, SequencesExt, TLC
VARIABLES parents,   \* label -> parent label (roots point to themselves); labels not in DOMAIN are singletons
          weights,   \* root -> size
          vroots,    \* set of verified roots
          vertices,  \* label -> set of labels (every recorded edge, two-way edges in both directions)
          oneway,    \* label -> set of labels: one-way edges between (possibly stale) representatives
          two, one, marked, dirty,   \* ghost: what was recorded (the abstract state of EquivDB.tla)
          stack, visited, owv, pc    \* connect_cycles in progress: stack of paths, visited set, snapshot table
algvars == <<parents, weights, vroots, vertices, oneway, two, one, marked, dirty, stack, visited, owv, pc>>

Get(f, x, dflt) == IF x \in DOMAIN f THEN f[x] ELSE dflt
Put(f, x, v) == [y \in DOMAIN f \cup {x} |-> IF y = x THEN v ELSE f[y]]
RECURSIVE Find(_, _)
Find(p, x) == IF x \notin DOMAIN p \/ p[x] = x THEN x ELSE Find(p, p[x])
Touch(p, w, x) == IF x \in DOMAIN p THEN [p |-> p, w |-> w] ELSE [p |-> Put(p, x, x), w |-> Put(w, x, 1)]
IsVer(p, vr, x) == Find(p, x) \in vr
\* _set_equivalent(a, b) on (parents, weights, vroots): returns the three
SetEq(p0, w0, vr0, a, b) ==
  LET t1 == Touch(p0, w0, a)  t2 == Touch(t1.p, t1.w, b)
      p == t2.p  w == t2.w
      ver == IsVer(p, vr0, a) \/ IsVer(p, vr0, b)
      ra == Find(p, a)  rb == Find(p, b)
      \* max((weight, root)) over the two roots
      heavy == IF <<w[ra], ra>> = <<w[rb], rb>> THEN ra
               ELSE IF w[ra] > w[rb] \/ (w[ra] = w[rb] /\ ra > rb) THEN ra ELSE rb
      light == IF heavy = ra THEN rb ELSE ra
      p2 == IF ra = rb THEN p ELSE Put(p, light, heavy)
      w2 == IF ra = rb THEN w ELSE Put(w, heavy, w[heavy] + w[light])
      vr2 == IF ver /\ ~IsVer(p2, vr0, a) THEN vr0 \cup {Find(p2, a)} ELSE vr0
  IN [p |-> p2, w |-> w2, vr |-> vr2]
AddEdge(v, a, b) == IF a = b THEN v ELSE Put(v, a, Get(v, a, {}) \cup {b})

AlgInit == /\ parents = <<>> /\ weights = <<>> /\ vroots = {} /\ vertices = <<>> /\ oneway = <<>>
           /\ two = {} /\ one = {} /\ marked = {} /\ dirty = FALSE
           /\ stack = <<>> /\ visited = {} /\ owv = <<>> /\ pc = "idle"

AddTwoWayA(a, b) ==
  /\ pc = "idle"
  /\ LET r == SetEq(parents, weights, vroots, a, b) IN
     /\ parents' = r.p /\ weights' = r.w /\ vroots' = r.vr
     /\ vertices' = AddEdge(AddEdge(vertices, a, b), b, a)
     /\ two' = IF a = b THEN two ELSE two \cup {<<a, b>>, <<b, a>>}
     /\ dirty' = (dirty \/ (a # b /\ ~({<<a, b>>, <<b, a>>} \subseteq two)))
     /\ UNCHANGED <<oneway, one, marked, stack, visited, owv, pc>>
AddOneWayA(a, b) ==
  /\ pc = "idle"
  /\ LET t1 == Touch(parents, weights, a)  t2 == Touch(t1.p, t1.w, b)
         ra == Find(t2.p, a)  rb == Find(t2.p, b) IN
     /\ parents' = t2.p /\ weights' = t2.w
     /\ vertices' = AddEdge(vertices, a, b)
     /\ oneway' = Put(oneway, ra, Get(oneway, ra, {}) \cup {rb})
     /\ one' = IF a = b THEN one ELSE one \cup {<<a, b>>}
     /\ dirty' = (dirty \/ (a # b /\ <<a, b>> \notin (two \cup one)))
     /\ UNCHANGED <<vroots, two, marked, stack, visited, owv, pc>>
MarkA(a) ==
  /\ pc = "idle"
  /\ LET t == Touch(parents, weights, a) IN
     /\ parents' = t.p /\ weights' = t.w
     /\ vroots' = IF IsVer(t.p, vroots, a) THEN vroots ELSE vroots \cup {Find(t.p, a)}
  /\ marked' = marked \cup {a}
  /\ UNCHANGED <<vertices, oneway, two, one, dirty, stack, visited, owv, pc>>
\* connect_cycles, first part: get_one_way_vertices() and the initial stack (dict order: any order)
StartCC ==
  /\ pc = "idle"
  /\ LET res == [s \in {Find(parents, x) : x \in DOMAIN oneway} |->
                   {e \in {Find(parents, y) : y \in UNION {oneway[x] : x \in {x \in DOMAIN oneway : Find(parents, x) = s}}} : e # s}]
         res2 == [s \in {s \in DOMAIN res : res[s] # {}} |-> res[s]]
         keys == DOMAIN res2 IN
     /\ oneway' = res2 /\ owv' = res2
     /\ \E order \in {q \in [1..Cardinality(keys) -> keys] : \A i, j \in 1..Cardinality(keys) : i # j => q[i] # q[j]} :
          stack' = [i \in 1..Cardinality(keys) |-> <<order[i]>>]
     /\ visited' = {} /\ pc' = "cc"
     /\ UNCHANGED <<parents, weights, vroots, vertices, two, one, marked, dirty>>
\* one iteration of `while stack`
RECURSIVE MergePath(_, _, _)
MergePath(st, vs, newEnd) ==   \* for eqv_vertix in path[i:]: _set_equivalent(eqv_vertix, new_end)
  IF vs = <<>> THEN st ELSE MergePath(SetEq(st.p, st.w, st.vr, Head(vs), newEnd), Tail(vs), newEnd)
RECURSIVE Successors(_, _, _, _)
Successors(st, path, ends, stk) ==   \* process the successors of path[-1] in the given order
  IF ends = <<>> THEN [st |-> st, stk |-> stk]
  ELSE LET ne == Head(ends)
           hits == {i \in 1..(Len(path) - 1) : Find(st.p, path[i]) = Find(st.p, ne)}
           st2 == IF hits = {} THEN st ELSE MergePath(st, SubSeq(path, Min(hits), Len(path)), ne)
           stk2 == IF \E i \in 1..Len(path) : path[i] = ne THEN stk ELSE Append(stk, Append(path, ne))
       IN Successors(st2, path, Tail(ends), stk2)
StepCC ==
  /\ pc = "cc" /\ stack # <<>>
  /\ LET path == stack[Len(stack)]  rest == SubSeq(stack, 1, Len(stack) - 1)  end == path[Len(path)] IN
     IF end \in visited
     THEN /\ stack' = rest /\ UNCHANGED <<parents, weights, vroots, vertices, oneway, two, one, marked, dirty, visited, owv, pc>>
     ELSE LET succ == Get(owv, end, {}) IN
          \E order \in {q \in [1..Cardinality(succ) -> succ] : \A i, j \in 1..Cardinality(succ) : i # j => q[i] # q[j]} :
            LET r == Successors([p |-> parents, w |-> weights, vr |-> vroots], path, order, rest) IN
            /\ parents' = r.st.p /\ weights' = r.st.w /\ vroots' = r.st.vr
            /\ stack' = r.stk /\ visited' = visited \cup {end}
            /\ UNCHANGED <<vertices, oneway, two, one, marked, dirty, owv, pc>>
EndCC == /\ pc = "cc" /\ stack = <<>> /\ pc' = "idle" /\ dirty' = FALSE
         /\ UNCHANGED <<parents, weights, vroots, vertices, oneway, two, one, marked, stack, visited, owv>>

\* ---- refinement obligations ------------------------------------------------------------------
EdgesA == two \cup one
RECURSIVE ReachA(_, _, _)
ReachA(E, frontier, seen) == IF frontier = {} THEN seen
                             ELSE LET nxt == {e[2] : e \in {e \in E : e[1] \in frontier}} \ seen IN ReachA(E, nxt, seen \cup nxt)
MutReachA(a, b) == b \in ReachA(EdgesA, {a}, {a}) /\ a \in ReachA(EdgesA, {b}, {b})
EquivA(a, b) == Find(parents, a) = Find(parents, b)
SoundA(L) == \A a, b \in L : EquivA(a, b) => MutReachA(a, b)
ExactA(L) == (pc = "idle" /\ ~dirty) => \A a, b \in L : MutReachA(a, b) => EquivA(a, b)
VerifiedA(L) == pc = "idle" => \A a \in L : IsVer(parents, vroots, a) <=> \E m \in marked : EquivA(a, m)
\* vertices holds exactly the recorded edges (what find_path walks on)
VerticesAreEdges(L) == \A a, b \in L : (b \in Get(vertices, a, {})) <=> (<<a, b>> \in EdgesA)
=============================================================================
