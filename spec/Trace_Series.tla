----------------------------- MODULE Trace_Series -----------------------------
(* Batch trace monitor for C20.  {tid, classes, events:[{op, ...}]}                                 *)
(*   eq   : num (AST of the numerator of lhs - rhs), vars, N                                         *)
(*   genf : c, P, Q, M  - the returned closed form as P/Q in Z[x]; M = order up to which agreement     *)
(*          forces equality at every order (degree argument, see DESIGN.md C20)                        *)
(*   genf_error : raised                                                                               *)
EXTENDS Series, Json, IOUtils
Traces == ndJsonDeserialize(IOEnv.TRACE_FILE)
VARIABLES t, l
vars == <<t, l>>
Clause(tr, e) ==
  CASE e.op = "eq" -> EquationClause(e, tr.classes)
    [] e.op = "genf" -> ClosedFormClause(e, tr.classes[e.c])
    [] OTHER -> "UnknownEvent"
Init == t = 1 /\ l = 1 /\ TLCSet(1, 0)
Step == /\ t <= Len(Traces) /\ l <= Len(Traces[t].events)
        /\ LET c == Clause(Traces[t], Traces[t].events[l]) IN
             IF c = "ok" THEN l' = l + 1 /\ t' = t
             ELSE PrintT(<<"REJECT", Traces[t].tid, l, c>>) /\ t' = t + 1 /\ l' = 1
Finish == /\ t <= Len(Traces) /\ l > Len(Traces[t].events)
          /\ TLCSet(1, TLCGet(1) + 1) /\ t' = t + 1 /\ l' = 1
Next == Step \/ Finish
Spec == Init /\ [][Next]_vars
Post == PrintT(<<"ACCEPTED", TLCGet(1), "OF", Len(Traces)>>)
=============================================================================
