CONSTANTS NL = 3 MaxOps = 3
SPECIFICATION Spec
INVARIANT Sound
INVARIANT Exact
INVARIANT Verified
INVARIANT Vertices
CHECK_DEADLOCK FALSE
