----------------------------- MODULE Trace_Forest -----------------------------
(* Batch trace monitor for C11.  {tid, events:[{op, root, U, S, rulekeys}]}                        *)
(*   extract : U = keys inserted into the table method (in order), S = keys extracted (in order)    *)
(*   rules   : S as above, rulekeys = forest keys of the concrete rules handed out for them (for a *)
(*             rule handed out in equivalence form also the key of the rule it was made from),      *)
(*             nrules = number of rules handed out                                                  *)
(*   outcome : kind = how the search ended ("spec" | "none" | "timeout" | "budget" | "error")       *)
EXTENDS ForestExtract, Json, IOUtils
Traces == ndJsonDeserialize(IOEnv.TRACE_FILE)
VARIABLES t, l
vars == <<t, l>>
SeqSetF(s) == {K4(s[i]) : i \in 1..Len(s)}
Clause(e) ==
  CASE e.op = "extract" -> ExtractClause(e.S, e.U, e.root)
    [] e.op = "rules" ->
         \* every extracted key (empty rules excepted: they are produced lazily) is realised by a concrete rule
         IF \E i \in 1..Len(e.S) : ~e.S[i].empty /\ K4(e.S[i]) \notin SeqSetF(e.rulekeys)
         THEN "EachExtractedKeyIsRealisedByAConcreteRuleWithThatKey"
         ELSE IF e.nrules # Cardinality({i \in 1..Len(e.S) : ~e.S[i].empty}) THEN "OneConcreteRulePerExtractedKey"
         ELSE "ok"
    [] e.op = "outcome" ->
         \* a search ends with a specification, with "no specification", or at its time / work budget - never by raising
         \* out of the extraction (e.g. no concrete rule could be re-created for an extracted key)
         IF e.kind \in {"spec", "none", "timeout", "budget"} THEN "ok" ELSE "ExtractionHandsOutAConcreteRuleForEveryKeyWithoutRaising"
    [] OTHER -> "UnknownEvent"
Init == t = 1 /\ l = 1 /\ TLCSet(1, 0)
Step == /\ t <= Len(Traces) /\ l <= Len(Traces[t].events)
        /\ LET c == Clause(Traces[t].events[l]) IN
             IF c = "ok" THEN l' = l + 1 /\ t' = t
             ELSE PrintT(<<"REJECT", Traces[t].tid, l, c>>) /\ t' = t + 1 /\ l' = 1
Finish == /\ t <= Len(Traces) /\ l > Len(Traces[t].events)
          /\ TLCSet(1, TLCGet(1) + 1) /\ t' = t + 1 /\ l' = 1
Next == Step \/ Finish
Spec == Init /\ [][Next]_vars
Post == PrintT(<<"ACCEPTED", TLCGet(1), "OF", Len(Traces)>>)
=============================================================================
