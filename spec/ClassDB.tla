------------------------------ MODULE ClassDB ------------------------------
(* The class database of comb_spec_searcher (class_db.py) as an abstract machine.        *)
(* Functional style: a state record and, per public call, an operator returning the set   *)
(* of admissible outcomes [st |-> new state, ret |-> observable result].  The linearisation *)
(* point of every action is the return of the call (the library is sequential).           *)
(*                                                                                        *)
(* State:  store : sequence of classes, index = label + 1  (labels are dense, 0-based)    *)
(*         empt  : sequence over {"U","T","F"}  - the emptiness cache (Unknown/True/False) *)
(*         te    : the set of classes that are truly empty (the class's own answer);      *)
(*                 a parameter of the run, never changed                                   *)
(* Classes are opaque values compared with = (the class's own equality).                  *)
EXTENDS Naturals, Integers, Sequences, FiniteSets, SequencesExt

InitDB(te) == [store |-> <<>>, empt |-> <<>>, te |-> te]

KnownC(st, c) == \E i \in 1..Len(st.store) : st.store[i] = c
KnownL(st, l) == l \in 0..(Len(st.store) - 1)
LabelOf(st, c) == (CHOOSE i \in 1..Len(st.store) : st.store[i] = c) - 1
Truth(st, c)  == IF c \in st.te THEN "T" ELSE "F"
WithClass(st, c) == IF KnownC(st, c) THEN st
                    ELSE [st EXCEPT !.store = Append(@, c), !.empt = Append(@, "U")]

\* Uniform result records (TLC cannot compare values of different kinds)
R(k, i, c) == [k |-> k, i |-> i, c |-> c]
RLabel(l) == R("label", l, "")
RClass(c) == R("class", 0, c)
RBool(b)  == R("bool", IF b THEN 1 ELSE 0, "")
RNone     == R("none", 0, "")
RKeyError == R("KeyError", 0, "")
Out(st, ret) == [st |-> st, ret |-> ret]

\* ---- public calls ------------------------------------------------------------------
\* get_label(class): label of the class, labelling it if new
GetLabelC(st, c) == LET s2 == WithClass(st, c) IN {Out(s2, RLabel(LabelOf(s2, c)))}
\* get_label(int): the label itself if issued, KeyError otherwise
GetLabelL(st, l) == {IF KnownL(st, l) THEN Out(st, RLabel(l)) ELSE Out(st, RKeyError)}
\* get_class(class): a class equal to it (it is labelled as a side effect)
GetClassC(st, c) == {Out(WithClass(st, c), RClass(c))}
\* get_class(int)
GetClassL(st, l) == {IF KnownL(st, l) THEN Out(st, RClass(st.store[l + 1])) ELSE Out(st, RKeyError)}
\* add(class)
AddC(st, c) == {Out(WithClass(st, c), RNone)}
\* class in db / label in db : total
ContainsC(st, c) == {Out(st, RBool(KnownC(st, c)))}
ContainsL(st, l) == {Out(st, RBool(KnownL(st, l)))}
\* is_empty(class): cached answer, computed from the class the first time.
\* For a class that was never labelled the code raises KeyError; labelling it and answering
\* truthfully would be just as acceptable for the property, so both outcomes are admitted.
IsEmptyC(st, c) ==
  IF KnownC(st, c)
  THEN LET i == LabelOf(st, c) + 1
           e == IF st.empt[i] = "U" THEN Truth(st, c) ELSE st.empt[i]
       IN {Out([st EXCEPT !.empt[i] = e], RBool(e = "T"))}
  ELSE LET s2 == WithClass(st, c) i == Len(s2.store) IN
       {Out(st, RKeyError), Out([s2 EXCEPT !.empt[i] = Truth(st, c)], RBool(c \in st.te))}
\* is_empty(class, label): the caller supplies the label (searcher fast path)
IsEmptyCL(st, c, l) ==
  IF KnownL(st, l)
  THEN LET e == IF st.empt[l + 1] = "U" THEN Truth(st, c) ELSE st.empt[l + 1]
       IN {Out([st EXCEPT !.empt[l + 1] = e], RBool(e = "T"))}
  ELSE {Out(st, R("IndexError", 0, "")), Out(st, RKeyError)}
\* set_empty(label, b) / set_empty(class, b)
SetEmptyL(st, l, b) ==
  {IF KnownL(st, l) THEN Out([st EXCEPT !.empt[l + 1] = IF b THEN "T" ELSE "F"], RNone) ELSE Out(st, RKeyError)}
SetEmptyC(st, c, b) ==
  LET s2 == WithClass(st, c) IN {Out([s2 EXCEPT !.empt[LabelOf(s2, c) + 1] = IF b THEN "T" ELSE "F"], RNone)}
\* iteration over the labels, then get_class of each: the whole bijection as the API shows it
Observe(st) == {Out(st, [k |-> "store", i |-> Len(st.store), c |-> "", store |-> st.store])}

\* ---- the property (C15) on the abstract state ------------------------------------------
Injective(st)     == \A i, j \in 1..Len(st.store) : st.store[i] = st.store[j] => i = j
SameLength(st)    == Len(st.store) = Len(st.empt)
CacheTruthful(st) == \A i \in 1..Len(st.store) : st.empt[i] # "U" => st.empt[i] = Truth(st, st.store[i])
AppendOnlyStep(s, s2) == IsPrefix(s.store, s2.store)

\* ---- dispatch on a logged / generated operation record ---------------------------------
\* o = [op, kc ("c" class key | "l" integer key), c, l, b]
Outcomes(st, o) ==
  CASE o.op = "get_label" /\ o.kc = "c" -> GetLabelC(st, o.c)
    [] o.op = "get_label" /\ o.kc = "l" -> GetLabelL(st, o.l)
    [] o.op = "get_class" /\ o.kc = "c" -> GetClassC(st, o.c)
    [] o.op = "get_class" /\ o.kc = "l" -> GetClassL(st, o.l)
    [] o.op = "add"                     -> AddC(st, o.c)
    [] o.op = "contains" /\ o.kc = "c"  -> ContainsC(st, o.c)
    [] o.op = "contains" /\ o.kc = "l"  -> ContainsL(st, o.l)
    [] o.op = "is_empty" /\ o.kc = "c"  -> IsEmptyC(st, o.c)
    [] o.op = "is_empty" /\ o.kc = "cl" -> IsEmptyCL(st, o.c, o.l)
    [] o.op = "set_empty" /\ o.kc = "l" -> SetEmptyL(st, o.l, o.b)
    [] o.op = "set_empty" /\ o.kc = "c" -> SetEmptyC(st, o.c, o.b)
    [] o.op = "observe"                 -> Observe(st)

\* Name of the clause of the property that a wrong result of operation o contradicts
ClauseOf(st, o) ==
  CASE o.op = "get_label" /\ o.kc = "c" -> IF KnownC(st, o.c) THEN "StableLabel" ELSE "DenseLabelsInOrderOfAppearance"
    [] o.op = "get_label" -> "LabelLookup"
    [] o.op = "get_class" -> "LookupReturnsStoredClass"
    [] o.op = "contains"  -> "MembershipTotal"
    [] o.op = "is_empty"  -> "CachedEmptinessTruthful"
    [] o.op = "observe"   -> "StableBijection"
    [] OTHER -> "NoResultExpected"
=============================================================================
