--------------------------- MODULE MC_TreeSystems ---------------------------
(* TLC chooses the inputs: every productive system with NI internal classes (kinds U / P, 1..MaxAr children     *)
(* over the internal classes and the two atoms: class NI+1 of size 1, class NI+2 of size 0) is exported as JSON, *)
(* together with its object counts for sizes 0..MaxN (replayed into the code: the fixture classes must           *)
(* enumerate exactly those objects).  Sample > 0: nodes are drawn from random subsets of that size.              *)
EXTENDS TreeUniverse, Json, Randomization
CONSTANTS NI, MaxAr, MaxN, Sample
Names == 1..(NI + 2)
ChTuples == UNION {[1..n -> Names] : n \in 1..MaxAr}
Internal == [k : {"U", "P"}, ch : ChTuples, sz : {0}]
Pool == IF Sample = 0 THEN Internal ELSE RandomSubset(Sample, Internal)
AtomN(s) == [k |-> "A", ch |-> <<>>, sz |-> s]
VARIABLE sys
Init == \E f \in [1..NI -> Pool] : sys = [c \in Names |-> IF c <= NI THEN f[c] ELSE IF c = NI + 1 THEN AtomN(1) ELSE AtomN(0)]
Next == UNCHANGED sys
Counts(s) == [c \in 1..NI |-> [n \in 0..MaxN |-> Cardinality(TObjs(s, c, n))]]
\* a product has at least two factors (the library reads every one-child rule as a disjoint union)
Shape == \A c \in 1..NI : sys[c].k = "P" => Len(sys[c].ch) >= 2
Emit == (Shape /\ Productive(sys)) => PrintT(<<"H", ToJson([sys |-> sys, counts |-> Counts(sys)])>>)
=============================================================================
