SPECIFICATION Spec
INVARIANT RoundTrip
INVARIANT KeySetMatches
CHECK_DEADLOCK FALSE
