------------------------------ MODULE MC_Search ------------------------------
(* The search loop over one universe (the definition of U below is rewritten by the harness from a  *)
(* table extracted from a real search, or from the hand-written family), every time-slicing.        *)
EXTENDS Naturals, Sequences, TLC
R(ch, pe, ip, wk, tw, sh) == [ch |-> ch, pe |-> pe, ip |-> ip, wk |-> wk, tw |-> tw, sh |-> sh]
U == [start |-> 0, empty |-> {}, verified |-> {1}, ninit |-> 1, nexp |-> 1, flavour |-> "base", initial |-> (2 :> << <<R(<<1, 0>>, FALSE, TRUE, TRUE, TRUE, <<0, 1>>)>> >>), expand |-> (0 :> << <<R(<<1, 2>>, TRUE, FALSE, TRUE, TRUE, <<0, 0>>)>> >>)] \* @UNIVERSE@
VARIABLES store, empt, q, rules, keys, marks, tried, expanded, skipped, phase, checks
INSTANCE Search
MaxChecks == 6 \* @MAXCHECKS@
Bounded == checks <= MaxChecks
=============================================================================
