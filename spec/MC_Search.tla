------------------------------ MODULE MC_Search ------------------------------
(* The search loop over one universe (the definition of U below is rewritten by the harness from a  *)
(* table extracted from a real search, or from the hand-written family), every time-slicing.        *)
EXTENDS Naturals, Sequences, TLC
R(par, ch, pe, ip, wk, tw, rv, sh, nf) == [par |-> par, ch |-> ch, pe |-> pe, ip |-> ip, wk |-> wk, tw |-> tw, rv |-> rv, sh |-> sh, nf |-> nf]
U == [start |-> 0, empty |-> {}, verified |-> {1}, ninf |-> 0, ninit |-> 1, nexps |-> <<1>>, nsym |-> 0, flavour |-> "base", reverse |-> FALSE, iterative |-> FALSE, inferral |-> <<>>, symm |-> <<>>, initial |-> (2 :> << <<R(2, <<1, 0>>, FALSE, TRUE, TRUE, TRUE, TRUE, <<0, 1>>, TRUE)>> >>), expand |-> (0 :> << << <<R(0, <<1, 2>>, TRUE, FALSE, TRUE, TRUE, TRUE, <<0, 0>>, TRUE)>> >> >>)] \* @UNIVERSE@
VARIABLES store, empt, q, rules, keys, marks, tried, infx, symx, expanded, skipped, phase, checks
INSTANCE Search
MaxChecks == 6 \* @MAXCHECKS@
Bounded == checks <= MaxChecks
=============================================================================
