------------------------------ MODULE MC_Search ------------------------------
(* The search loop over one universe (the definition of U below is rewritten by the harness from a  *)
(* table extracted from a real search, or from the hand-written family), every time-slicing.        *)
EXTENDS Naturals, Sequences, TLC
R(ch, pe, ip, wk, tw) == [ch |-> ch, pe |-> pe, ip |-> ip, wk |-> wk, tw |-> tw]
U == [start |-> 0, empty |-> {}, verified |-> {1}, initial |-> (2 :> <<R(<<1, 0>>, FALSE, TRUE, TRUE, TRUE)>>), expand |-> (0 :> <<R(<<1, 2>>, TRUE, FALSE, TRUE, TRUE)>>)] \* @UNIVERSE@
VARIABLES store, empt, q, rules, marks, tried, expanded, skipped, phase, checks
INSTANCE Search
MaxChecks == 6 \* @MAXCHECKS@
Bounded == checks <= MaxChecks
=============================================================================
