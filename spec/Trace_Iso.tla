------------------------------- MODULE Trace_Iso -------------------------------
(* Batch trace monitor for C12 / C13.  {tid, classes, events:[{op, ...}]}                           *)
EXTENDS Iso, Json, IOUtils
Traces == ndJsonDeserialize(IOEnv.TRACE_FILE)
VARIABLES t, l
vars == <<t, l>>
Clause(tr, e) ==
  CASE e.op = "bij" -> BijClause(tr.classes[e.c1], tr.classes[e.c2], e)
    [] e.op = "check" -> CheckClause(e)
    [] e.op = "reflexive" -> ReflexiveClause(e)
    [] e.op = "finder" -> IF FinderNote(e) /\ PrintT(<<"INFO", tr.tid, "library-test-or-bijection-refuses-the-returned-pair", e.iso>>)
                          THEN FinderClause(e) ELSE FinderClause(e)
    [] e.op = "reload" -> ReloadClause(e)
    [] e.op = "bisim" -> IF e.claim = "check" /\ ~BisimAgrees(e) /\ PrintT(<<"INFO", tr.tid, "library-test-disagrees-with-bisimulation", e.ans>>)
                         THEN "ok" ELSE BisimClause(e)
    [] OTHER -> "UnknownEvent"
Init == t = 1 /\ l = 1 /\ TLCSet(1, 0)
Step == /\ t <= Len(Traces) /\ l <= Len(Traces[t].events)
        /\ LET c == Clause(Traces[t], Traces[t].events[l]) IN
             IF c = "ok" THEN l' = l + 1 /\ t' = t
             ELSE PrintT(<<"REJECT", Traces[t].tid, l, c>>) /\ t' = t + 1 /\ l' = 1
Finish == /\ t <= Len(Traces) /\ l > Len(Traces[t].events)
          /\ TLCSet(1, TLCGet(1) + 1) /\ t' = t + 1 /\ l' = 1
Next == Step \/ Finish
Spec == Init /\ [][Next]_vars
Post == PrintT(<<"ACCEPTED", TLCGet(1), "OF", Len(Traces)>>)
=============================================================================
