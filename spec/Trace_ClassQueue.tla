-------------------------- MODULE Trace_ClassQueue --------------------------
(* Batch trace monitor for the work queue.  All traces of one batch share the pack shape      *)
(* (the three definitions below are rewritten by the harness per batch).                       *)
(*   {tid, events:[{op, a, ret:{l,k,s,i}, lv}]}                                                *)
(* Fatal (property-level) verdicts come from the ghost layer of ClassQueue.tla only.           *)
(* The implementation-shaped layer runs alongside; its first disagreement with the recorded    *)
(* result is printed as <<"INFO","DIVERGE",tid,event>> and is not a verdict.                   *)
EXTENDS Naturals, Integers, Sequences, FiniteSets, SequencesExt, TLC, Json, IOUtils
NInf == 1 \* @NINF@
NInit == 1 \* @NINIT@
Exp == <<1>> \* @EXP@
INSTANCE ClassQueue
Traces == ndJsonDeserialize(IOEnv.TRACE_FILE)
Fuel == 4000
VARIABLES t, l, g, q, div
vars == <<t, l, g, q, div>>
\* the implementation-shaped model's own result for the recorded call
Model(qq, gg, e) ==
  CASE e.op = "add"      -> [q |-> Add(qq, e.a), ret |-> NoneP]
    [] e.op = "stop"     -> [q |-> SetStop(qq, e.a), ret |-> NoneP]
    [] e.op = "verified" -> [q |-> SetVerified(qq, e.a), ret |-> NoneP]
    [] e.op = "notinf"   -> [q |-> SetNotInf(qq, e.a), ret |-> NoneP]
    [] e.op = "next"     -> NextP(qq, Fuel)
    [] e.op = "dl_start" -> [q |-> qq, ret |-> NoneP]
    [] e.op = "dl_next"  -> IF gg.dl = -1 THEN [q |-> qq, ret |-> NoneP] ELSE DlNext(qq, gg.dl, Fuel)
Init == t = 1 /\ l = 1 /\ g = InitG /\ q = InitQ /\ div = FALSE /\ TLCSet(1, 0)
Step == /\ t <= Len(Traces) /\ l <= Len(Traces[t].events)
        /\ LET e == Traces[t].events[l]  c == Clause(g, e) IN
             IF c = "ok"
             THEN LET m == IF div THEN [q |-> q, ret |-> e.ret] ELSE Model(q, g, e)
                      d == ~div /\ (m.ret # e.ret \/ m.q.levels # e.lv) IN
                  /\ (d => PrintT(<<"INFO", "DIVERGE", Traces[t].tid, l>>))
                  /\ g' = GhostStep(g, e) /\ q' = m.q /\ div' = (div \/ d) /\ l' = l + 1 /\ t' = t
             ELSE /\ PrintT(<<"REJECT", Traces[t].tid, l, c>>)
                  /\ t' = t + 1 /\ l' = 1 /\ g' = InitG /\ q' = InitQ /\ div' = FALSE
Finish == /\ t <= Len(Traces) /\ l > Len(Traces[t].events)
          /\ TLCSet(1, TLCGet(1) + 1)
          /\ t' = t + 1 /\ l' = 1 /\ g' = InitG /\ q' = InitQ /\ div' = FALSE
Next == Step \/ Finish
Spec == Init /\ [][Next]_vars
Post == PrintT(<<"ACCEPTED", TLCGet(1), "OF", Len(Traces)>>)
=============================================================================
