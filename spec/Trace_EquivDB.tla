---------------------------- MODULE Trace_EquivDB ----------------------------
(* Batch trace monitor for the equivalence database.                                           *)
(*  {tid, events:[{op, a, b, labels, eq, ver, path}]}                                           *)
(*   op in two | one | mark | cc            (state-changing calls, a/b = labels)               *)
(*         observe (labels, eq matrix, ver vector = answers of equivalent()/is_verified())      *)
(*         path    (a, b, path = find_path(a,b), asked only for labels reported equivalent)     *)
(* Only the edge sets, marks and the dirty flag are tracked: the verdict never depends on the   *)
(* model's own idea of the partition, only on reachability along the recorded edges.            *)
EXTENDS EquivDB, TLC, Json, IOUtils
Traces == ndJsonDeserialize(IOEnv.TRACE_FILE)
VARIABLES t, l, st
vars == <<t, l, st>>
Apply(s, e) ==
  CASE e.op = "two"  -> AddTwoWay(s, e.a, e.b)
    [] e.op = "one"  -> AddOneWay(s, e.a, e.b)
    [] e.op = "mark" -> Mark(s, e.a)
    [] e.op = "cc"   -> [s EXCEPT !.dirty = FALSE]   \* ConnectCycles without recomputing the unused partition
    [] OTHER -> s
Clause(s, e) ==
  CASE e.op = "observe" -> ObsClause(s, e)
    [] e.op = "path" -> PathClause(s, e.a, e.b, e.path)
    [] e.op \in {"two", "one", "mark", "cc"} -> "ok"
    [] OTHER -> "UnknownEvent"
\* the partition is not needed for the verdicts: keep it trivial to save work on big traces
Light(s) == [s EXCEPT !.part = <<>>]
Init == t = 1 /\ l = 1 /\ st = InitE /\ TLCSet(1, 0)
Step == /\ t <= Len(Traces) /\ l <= Len(Traces[t].events)
        /\ LET e == Traces[t].events[l]  c == Clause(st, e) IN
             IF c = "ok" THEN /\ st' = Light(Apply(st, e)) /\ l' = l + 1 /\ t' = t
             ELSE /\ PrintT(<<"REJECT", Traces[t].tid, l, c>>)
                  /\ t' = t + 1 /\ l' = 1 /\ st' = InitE
Finish == /\ t <= Len(Traces) /\ l > Len(Traces[t].events)
          /\ TLCSet(1, TLCGet(1) + 1)
          /\ t' = t + 1 /\ l' = 1 /\ st' = InitE
Next == Step \/ Finish
Spec == Init /\ [][Next]_vars
Post == PrintT(<<"ACCEPTED", TLCGet(1), "OF", Len(Traces)>>)
=============================================================================
