CONSTANTS NC = 2 MaxShift = 1 MaxArity = 2 MaxRules = 2 INF = INF
SPECIFICATION Spec
INVARIANT Refines
INVARIANT NeverAbove
CHECK_DEADLOCK FALSE
