----------------------------- MODULE MC_Counting -----------------------------
(* Design-level bridge C10 => C02: take any rule set over classes 0..NC-1 in which every class has  *)
(* exactly one rule and which Productivity.tla accepts (every class pumps).  Evaluate it as the     *)
(* library does: computing term n of class c asks child i for all its terms up to n - shift[i]       *)
(* (clipped at 0) and, being memoised, a term is "in progress" from request to completion.           *)
(* Invariant: no request ever hits a term that is in progress (no circular wait), and every term     *)
(* up to N gets computed (termination), i.e. "productive + reads within shifts => evaluable".        *)
EXTENDS Productivity, TLC
CONSTANTS NC, MaxShift, N
Classes == 0..(NC - 1)
Shifts == (-MaxShift)..MaxShift
RuleChoices == UNION {{[p |-> 0, ch |-> ch, sh |-> sh] : ch \in [1..a -> Classes], sh \in [1..a -> Shifts]} : a \in 0..2}
VARIABLES spec, stack, done, bad
vars == <<spec, stack, done, bad>>
RuleOf(c) == [spec[c] EXCEPT !.p = c]
RuleSet == {RuleOf(c) : c \in Classes}
Init == /\ spec \in [Classes -> RuleChoices]
        /\ \A c \in Classes : Answer({[spec[d] EXCEPT !.p = d] : d \in Classes}, Classes)[c] = -1
        /\ stack = <<>> /\ done = {} /\ bad = FALSE
\* the terms a computation of (c, n) needs: child i at sizes 0..n - sh[i]; own earlier terms
Needs(c, n) == LET r == RuleOf(c) IN
  UNION {{<<r.ch[i], m>> : m \in 0..(n - r.sh[i])} : i \in 1..Len(r.ch)} \cup {<<c, m>> : m \in 0..(n - 1)}
Top == stack[Len(stack)]
Request == /\ stack = <<>> /\ \E c \in Classes, n \in 0..N : <<c, n>> \notin done /\ stack' = <<<<c, n>>>> /\ UNCHANGED <<spec, done, bad>>
Descend == /\ stack # <<>> /\ ~bad
           /\ LET missing == {x \in Needs(Top[1], Top[2]) : x \notin done /\ x[2] <= N + MaxShift * NC} IN
              /\ missing # {}
              /\ \E x \in missing :
                    /\ bad' = (\E j \in 1..Len(stack) : stack[j] = x)      \* circular wait
                    /\ stack' = Append(stack, x) /\ UNCHANGED <<spec, done>>
Complete == /\ stack # <<>> /\ ~bad
            /\ {x \in Needs(Top[1], Top[2]) : x \notin done /\ x[2] <= N + MaxShift * NC} = {}
            /\ done' = done \cup {Top} /\ stack' = SubSeq(stack, 1, Len(stack) - 1) /\ UNCHANGED <<spec, bad>>
Next == Request \/ Descend \/ Complete
Spec == Init /\ [][Next]_vars
NoCircularWait == ~bad
=============================================================================
