------------------------------ MODULE Sampling ------------------------------
(* Uniform sampling from a rule (C08).  To draw an object of size n (parameters p) a rule with      *)
(* N = count(n, p) > 0 objects draws r uniformly from 1..N and selects a branch: for a union the     *)
(* child that holds the r-th object, for a product the composition of sizes/parameters.  The random  *)
(* source is enumerated: a draw event lists, for EVERY r in 1..N, the selected branch, and for every  *)
(* branch that can be selected the number of objects it accounts for, computed from the TRUE counts   *)
(* of the children (weight).  Uniformity at the rule: #{r : selection(r) = b} = weight(b) for every   *)
(* branch, and the weights sum to N.                                                                  *)
EXTENDS Naturals, Integers, Sequences, FiniteSets, FiniteSetsExt, SequencesExt, TLC
\* e = [count, sel = <<branch id per r>>, branches = <<[id, weight]>>]
SumW(bs) == FoldSeq(LAMBDA b, acc : b.weight + acc, 0, bs)
\* Global uniformity of a whole specification: every complete run of the sampler (all outcomes of the
\* random source enumerated) ends in an object and has probability 1 / (product of the ranges drawn from).
\* With D a common multiple of all those products, every object of the class must collect mass D / count.
ProdSeq(s) == FoldSeq(LAMBDA x, acc : x * acc, 1, s)
MassOf(runs, w, D) ==
  FoldSet(LAMBDA i, acc : acc + (D \div ProdSeq(runs[i].arities)), 0, {i \in 1..Len(runs) : runs[i].obj = w})
GlobalClause(e, objects) ==
  CASE e.count # Cardinality(objects) -> "CountEqualsNumberOfObjects"
    [] \E i \in 1..Len(e.runs) : e.D % ProdSeq(e.runs[i].arities) # 0 -> "FIXTURE:CommonDenominator"
    [] e.D % e.count # 0 -> "FIXTURE:CommonDenominator"
    [] \E i \in 1..Len(e.runs) : e.runs[i].obj \notin objects -> "SampledObjectBelongsToTheClass"
    [] \E w \in objects : MassOf(e.runs, w, e.D) # e.D \div e.count -> "EachObjectHasProbabilityOneOverTheCount"
    [] OTHER -> "ok"
DrawClause(e) ==
  CASE e.count <= 0 -> "DrawOnlyWhenThereAreObjects"
    [] Len(e.sel) # e.count -> "EveryOutcomeOfTheRandomSourceSelectsABranch"
    [] \E i \in 1..Len(e.sel) : ~\E j \in 1..Len(e.branches) : e.branches[j].id = e.sel[i] -> "SelectedBranchExists"
    [] \E j \in 1..Len(e.branches) : Cardinality({i \in 1..Len(e.sel) : e.sel[i] = e.branches[j].id}) # e.branches[j].weight
         -> "BranchChosenWithProbabilityProportionalToItsObjects"
    [] SumW(e.branches) # e.count -> "BranchWeightsSumToTheParentCount"
    [] OTHER -> "ok"
=============================================================================
