------------------------------- MODULE RuleDB -------------------------------
(* The pruning rule database (rule_db/base.py: default and memory-saving flavours) abstractly.  *)
(* A stored rule is a record [s |-> start label, e |-> <<end labels>>, tw |-> two-way?]          *)
(* (ends are the cleaned labels: empty children removed; tw only matters for single-child rules). *)
(* Single-child rules are edges of the equivalence graph (two-way: both directions); the         *)
(* equivalence classes are its strongly connected components; rules are then read "up to         *)
(* equivalence" and a specification exists iff the start class's component survives the greatest *)
(* fixed point (recursive packs) or is bottom-up derivable with recursion to itself only          *)
(* (iterative packs).                                                                             *)
EXTENDS Prune
EdgeSet(rules) == UNION {IF Len(r.e) = 1 /\ r.e[1] # r.s
                         THEN (IF r.tw THEN {<<r.s, r.e[1]>>, <<r.e[1], r.s>>} ELSE {<<r.s, r.e[1]>>})
                         ELSE {} : r \in rules}
RECURSIVE ReachF(_, _, _)
ReachF(E, frontier, seen) ==
  IF frontier = {} THEN seen
  ELSE LET nxt == {x[2] : x \in {x \in E : x[1] \in frontier}} \ seen IN ReachF(E, nxt, seen \cup nxt)
ReachE(E, a) == ReachF(E, {a}, {a})
LabelsOf(rules) == {r.s : r \in rules} \cup UNION {Rng(r.e) : r \in rules}
\* representative of a label: the least label of its strongly connected component
RepMap(rules, extra) ==
  LET E == EdgeSet(rules)  L == LabelsOf(rules) \cup extra
      R == [a \in L |-> ReachE(E, a)]
  IN [a \in L |-> Min({b \in R[a] : a \in R[b]})]
\* rules up to equivalence, as a rule dictionary over representatives
RdEq(rules, rep) ==
  LET live == {r \in rules : ~(Len(r.e) = 1 /\ rep[r.s] = rep[r.e[1]])}
      keys == {rep[r.s] : r \in live}
  IN [k \in keys |-> {[i \in 1..Len(r.e) |-> rep[r.e[i]]] : r \in {r \in live : rep[r.s] = k}}]
HasSpec(rules, root, iterative) ==
  LET rep == RepMap(rules, {root})  rd == RdEq(rules, rep) IN
  IF iterative THEN IterDerivable(rd, rep[root]) ELSE rep[root] \in Gfp(rd)
=============================================================================
