-------------------------- MODULE MC_ForestExtract --------------------------
(* Every universe of at most MaxKeys keys over classes 0..NC-1 (root 0): every minimal productive *)
(* subset is functional and closed (so an extractor that returns a minimal set need not check      *)
(* more).  Universes in which the root pumps are exported (with every bucket assignment drawn by    *)
(* the harness) for replay into the real extractor.                                                 *)
EXTENDS ForestExtract, Json
CONSTANTS NC, MaxShift, MaxArity, MaxKeys, EmitMode, AllBuckets
Classes == 0..(NC - 1)
Shifts == (-MaxShift)..MaxShift
Buckets(a) == IF a = 0 THEN {"VERIFICATION"} ELSE IF AllBuckets THEN {"NORMAL", "REVERSE", "EQUIV"} ELSE {"NORMAL"}
Alphabet == UNION {{[p |-> p, ch |-> ch, sh |-> sh, b |-> b] : p \in Classes, ch \in [1..a -> Classes], sh \in [1..a -> Shifts], b \in Buckets(a)} : a \in 0..MaxArity}
VARIABLES hist
Init == hist = <<>>
Next == Len(hist) < MaxKeys /\ \E k \in Alphabet : hist' = Append(hist, k)
Spec == Init /\ [][Next]_hist
UU == {hist[i] : i \in 1..Len(hist)}
MinimalImpliesFunctionalAndClosed ==
  \A SS \in SUBSET UU : MinimalProductive(SS, 0) => FunctionalSet(SS) /\ ClosedSet(SS)
\* the implementation-shaped minimisation satisfies the post-conditions of C11, whatever the list order and buckets
MinimizeMeetsPostconditions == Pumps(UU, 0) => ExtractClause(Minimize(hist, 0), hist, 0) = "ok"
Emit == (EmitMode = "pumping" /\ Len(hist) = MaxKeys /\ Pumps(UU, 0)) => PrintT(<<"H", ToJson(hist)>>)
=============================================================================
