----------------------------- MODULE Trace_Count -----------------------------
(* Batch trace monitor for the counting / generation / sampling machine (C07-C10).                 *)
(*  {tid, classes:[name |-> class record], events:[...]}                                            *)
(*   provided  : c, n, terms   - what a recording provider handed to the rule (must be the truth:   *)
(*               this validates the harness, a mismatch is reported as FIXTURE, not as a violation)  *)
(*   contract  : kind, parent, children, maps, n - the strategy contract of a fixture rule (Contracts.tla)   *)
(*   kept      : c, n, terms   - the same provider object after the rule used it                     *)
(*   formterms : form, c (the form's parent), n, terms - computed by the rule form from providers    *)
(*   reads     : form, level, shifts, reqs, selfreqs  - what the computation of `level` asked for    *)
(*   objects   : c, n, objs = <<<<params, <<words>>>>>>, terms - objects generated / their counts     *)
(*               (partial: only some parameter values were asked for)                                *)
(*   maps      : kind, c, children, obj, parts (<<>> = None), back                                   *)
(*   draw      : see Sampling.tla                                                                    *)
EXTENDS WordUniverse, Counting, Sampling, Contracts, Json, IOUtils
Traces == ndJsonDeserialize(IOEnv.TRACE_FILE)
VARIABLES t, l
vars == <<t, l>>
SeqSetC(s) == {s[i] : i \in 1..Len(s)}
CountIn(terms, p) == LET m == {x \in terms : x[1] = p} IN IF m = {} THEN 0 ELSE (CHOOSE x \in m : TRUE)[2]
ObjectsClause(cls, e) ==
  LET truth == Objs(cls, e.n) IN
  CASE \E i \in 1..Len(e.objs) : Cardinality(SeqSetC(e.objs[i][2])) # Len(e.objs[i][2]) -> "EachObjectGeneratedOnce"
    [] \E i, j \in 1..Len(e.objs) : i # j /\ e.objs[i][1] = e.objs[j][1] -> "OneBucketPerParameterValue"
    [] \E i \in 1..Len(e.objs) : SeqSetC(e.objs[i][2]) # {w \in truth : ParamsOf(cls, w) = e.objs[i][1]}
         -> "GeneratedObjectsAreExactlyTheObjectsOfTheClass"
    [] ~e.partial /\ UNION {SeqSetC(e.objs[i][2]) : i \in 1..Len(e.objs)} # truth -> "GeneratedObjectsAreExactlyTheObjectsOfTheClass"
    [] {<<e.objs[i][1], Len(e.objs[i][2])>> : i \in {i \in 1..Len(e.objs) : Len(e.objs[i][2]) > 0}} # ObservedTerms(e.terms)
         -> "NumberGeneratedEqualsReportedCount"
    [] OTHER -> "ok"
\* parts: sequence of [none |-> BOOLEAN, w |-> word]
MapsClause(tr, e) ==
  LET np == {i \in 1..Len(e.parts) : ~e.parts[i].none} IN
  CASE Len(e.parts) # Len(e.children) -> "OnePartPerChild"
    [] e.kind = "union" /\ Cardinality(np) # 1 -> "UnionMapsToExactlyOneChild"
    [] e.kind = "product" /\ Cardinality(np) # Len(e.parts) -> "ProductMapsToEveryChild"
    [] \E i \in np : e.parts[i].w \notin Objs(tr.classes[e.children[i]], Len(e.parts[i].w)) -> "PartsLieInTheChildClasses"
    [] e.back # e.obj -> "MappingToPartsAndBackReturnsTheObject"
    [] OTHER -> "ok"
Clause(tr, e) ==
  CASE e.op = "provided" -> IF ObservedTerms(e.terms) = TrueTerms(tr.classes[e.c], e.n) THEN "ok" ELSE "FIXTURE:ProviderHandsOutTheTruth"
    [] e.op = "contract" -> ContractClause(tr.classes, e)
    [] e.op = "kept" -> IF ObservedTerms(e.terms) = TrueTerms(tr.classes[e.c], e.n) THEN "ok" ELSE "RuleLeavesTheEnumerationsItWasGivenUnchanged"
    [] e.op = "formterms" -> IF ObservedTerms(e.terms) = TrueTerms(tr.classes[e.c], e.n) THEN "ok" ELSE "RuleFormCountsItsParentCorrectly"
    [] e.op = "reads" -> ReadClause(e)
    [] e.op = "objects" -> ObjectsClause(tr.classes[e.c], e)
    [] e.op = "maps" -> MapsClause(tr, e)
    [] e.op = "draw" ->
         \* the weight of a branch is computed here from the TRUE counts of the children
         LET W(b) == ProdSeq([j \in 1..Len(b) |-> CountIn(TrueTerms(tr.classes[b[j].child], b[j].n), b[j].params)])
         IN IF e.count # CountIn(TrueTerms(tr.classes[e.c], e.n), e.params) THEN "FIXTURE:DrawCountIsTheTruth"
            ELSE IF \E i \in 1..Len(e.objs) : e.objs[i] \notin Objs(tr.classes[e.c], e.n) \/ ParamsOf(tr.classes[e.c], e.objs[i]) # e.params
                 THEN "SampledObjectHasTheRequestedSizeAndParameters"
            ELSE DrawClause([count |-> e.count, sel |-> e.sel,
                             branches |-> [j \in 1..Len(e.branches) |-> [id |-> j - 1, weight |-> W(e.branches[j])]]])
    [] e.op = "global" -> GlobalClause(e, {w \in Objs(tr.classes[e.c], e.n) : ParamsOf(tr.classes[e.c], w) = e.params})
    [] e.op = "refuse" -> IF e.raised = "InvalidOperationError" THEN "ok" ELSE "SamplingRefusesWhenThereIsNoObject"
    [] OTHER -> "UnknownEvent"
Init == t = 1 /\ l = 1 /\ TLCSet(1, 0)
Step == /\ t <= Len(Traces) /\ l <= Len(Traces[t].events)
        /\ LET c == Clause(Traces[t], Traces[t].events[l]) IN
             IF c = "ok" THEN l' = l + 1 /\ t' = t
             ELSE PrintT(<<"REJECT", Traces[t].tid, l, c>>) /\ t' = t + 1 /\ l' = 1
Finish == /\ t <= Len(Traces) /\ l > Len(Traces[t].events)
          /\ TLCSet(1, TLCGet(1) + 1) /\ t' = t + 1 /\ l' = 1
Next == Step \/ Finish
Spec == Init /\ [][Next]_vars
Post == PrintT(<<"ACCEPTED", TLCGet(1), "OF", Len(Traces)>>)
=============================================================================
