------------------------------ MODULE Contracts ------------------------------
(* The documented strategy contracts, stated on the ground truth (WordUniverse.tla), independently of  *)
(* the library's constructors: a disjoint-union strategy partitions the parent's objects among its      *)
(* children, a cartesian-product strategy factors them, and the declared parameter maps transport the   *)
(* statistics (a parent statistic that is not passed to a child is 0 on that child's objects; several   *)
(* parent statistics may be passed onto one child statistic).  Used to validate the fixture universe:   *)
(* the properties' hypothesis "packs that honour the documented contracts" is discharged by TLC, and a   *)
(* failure here is a broken fixture (exit 2), never a verdict about the library.                         *)
EXTENDS WordUniverse, TLC
\* maps[i][j] = index (1-based) of the child-i statistic that parent statistic j is passed to, 0 if not passed
MapUp(childParams, m) == [j \in 1..Len(m) |-> IF m[j] = 0 THEN 0 ELSE childParams[m[j]]]
\* the child's terms are consistent with the map: statistics identified by the map agree... (they are the same child value)
AddBags(B1, B2) ==   \* bags as sets of <<params, count>>
  LET ps == {x[1] : x \in B1 \cup B2}
      cnt(B, p) == LET m == {x \in B : x[1] = p} IN IF m = {} THEN 0 ELSE (CHOOSE x \in m : TRUE)[2]
  IN {<<p, cnt(B1, p) + cnt(B2, p)>> : p \in ps}
MapBag(B, m) ==
  LET ps == {MapUp(x[1], m) : x \in B}
      tot(p) == FoldSet(LAMBDA x, acc : acc + x[2], 0, {x \in B : MapUp(x[1], m) = p})
  IN {<<p, tot(p)>> : p \in ps}
RECURSIVE UnionBag(_, _, _, _)
UnionBag(children, maps, n, i) ==
  IF i > Len(children) THEN {} ELSE AddBags(MapBag(TrueTerms(children[i], n), maps[i]), UnionBag(children, maps, n, i + 1))
\* product of bags: parameters add, counts multiply
MulBags(B1, B2) ==
  LET pairs == {<<x, y>> : x \in B1, y \in B2}
      sum(x, y) == [j \in 1..Len(x[1]) |-> x[1][j] + y[1][j]]
      ps == {sum(pr[1], pr[2]) : pr \in pairs}
      tot(p) == FoldSet(LAMBDA pr, acc : acc + pr[1][2] * pr[2][2], 0, {pr \in pairs : sum(pr[1], pr[2]) = p})
  IN {<<p, tot(p)>> : p \in ps}
RECURSIVE ProductBag(_, _, _, _, _), SplitSizes(_, _, _, _, _, _)
\* all ways to split size n among children i..k (summed over the size k of child i: a recursion, not a set of bags -
\* two different splits may contribute equal bags)
SplitSizes(children, maps, n, i, np, k) ==
  IF k > n THEN {}
  ELSE AddBags(MulBags(MapBag(TrueTerms(children[i], k), maps[i]), ProductBag(children, maps, n - k, i + 1, np)),
               SplitSizes(children, maps, n, i, np, k + 1))
ProductBag(children, maps, n, i, np) ==
  IF i > Len(children) THEN (IF n = 0 THEN {<<[j \in 1..np |-> 0], 1>>} ELSE {})
  ELSE SplitSizes(children, maps, n, i, np, 0)
NonZero(B) == {x \in B : x[2] # 0}
ContractClause(classes, e) ==
  LET P == classes[e.parent]
      ch == [i \in 1..Len(e.children) |-> classes[e.children[i]]]
      got == IF e.kind = "union" THEN UnionBag(ch, e.maps, e.n, 1) ELSE ProductBag(ch, e.maps, e.n, 1, Len(P.stats))
  IN IF NonZero(got) = TrueTerms(P, e.n) THEN "ok"
     ELSE IF e.kind = "union" THEN "FIXTURE:ChildrenPartitionTheParentWithParameters" ELSE "FIXTURE:ChildrenFactorTheParentWithParameters"
=============================================================================
