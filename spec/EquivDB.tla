------------------------------- MODULE EquivDB -------------------------------
(* The equivalence database (equiv_db.py) as an abstract machine.                              *)
(*   two    : set of ordered pairs <<a,b>>, closed under reversal  (two-way edges)              *)
(*   one    : set of ordered pairs (one-way edges)                                             *)
(*   marked : labels on which set_verified was called                                           *)
(*   part   : the partition the database currently reports, as a function label -> its class   *)
(*            (two-way edges merge at once; one-way cycles merge at the next ConnectCycles)     *)
(*   dirty  : an edge was added since the last ConnectCycles                                    *)
(* The property (C06) speaks about reachability along recorded edges; the clauses below use    *)
(* only the recorded edge sets and the answers the API gives.                                   *)
EXTENDS Naturals, Integers, Sequences, FiniteSets, SequencesExt
Edges(st) == st.two \cup st.one
Nodes(st) == {e[1] : e \in Edges(st)} \cup {e[2] : e \in Edges(st)} \cup st.marked
RECURSIVE ReachFrom(_, _, _)
ReachFrom(E, frontier, seen) ==
  IF frontier = {} THEN seen
  ELSE LET nxt == {e[2] : e \in {e \in E : e[1] \in frontier}} \ seen IN ReachFrom(E, nxt, seen \cup nxt)
Reach(E, a) == ReachFrom(E, {a}, {a})
MutReach(st, a, b) == b \in Reach(Edges(st), a) /\ a \in Reach(Edges(st), b)
SCC(st, a) == {b \in Reach(Edges(st), a) : a \in Reach(Edges(st), b)}

InitE == [two |-> {}, one |-> {}, marked |-> {}, part |-> <<>>, dirty |-> FALSE]
ClassOfP(part, a) == IF a \in DOMAIN part THEN part[a] ELSE {a}
ClassOf(st, a) == ClassOfP(st.part, a)
Merge(part, a, b) ==
  LET c == ClassOfP(part, a) \cup ClassOfP(part, b)
  IN [x \in DOMAIN part \cup c |-> IF x \in c THEN c ELSE part[x]]
AddTwoWay(st, a, b) ==
  IF a = b THEN st
  ELSE [st EXCEPT !.two = @ \cup {<<a, b>>, <<b, a>>}, !.part = Merge(@, a, b),
                  !.dirty = @ \/ ~({<<a, b>>, <<b, a>>} \subseteq st.two)]
AddOneWay(st, a, b) ==
  IF a = b THEN st
  ELSE [st EXCEPT !.one = @ \cup {<<a, b>>}, !.dirty = @ \/ <<a, b>> \notin Edges(st)]
Mark(st, a) == [st EXCEPT !.marked = @ \cup {a}]
ConnectCycles(st) ==
  [st EXCEPT !.part = [x \in Nodes(st) \cup DOMAIN st.part |-> SCC(st, x)], !.dirty = FALSE]
Equivalent(st, a, b) == b \in ClassOf(st, a)
IsVerified(st, a) == ClassOf(st, a) \cap st.marked # {}

\* ---- invariants of the abstract machine (checked by TLC on MC_EquivDB) ---------------------
PartIsPartition(st) == \A a \in DOMAIN st.part : a \in st.part[a] /\ \A b \in st.part[a] : ClassOf(st, b) = st.part[a]
PartSound(st) == \A a \in DOMAIN st.part : st.part[a] \subseteq SCC(st, a)
PartExact(st) == ~st.dirty => \A a \in DOMAIN st.part : st.part[a] = SCC(st, a)

\* ---- the property clauses on *observed* answers -------------------------------------------
\* An observation: labels (sequence), eq (matrix of 0/1 over labels), ver (vector of 0/1)
Idx(o) == 1..Len(o.labels)
ObsClause(st, o) ==
  LET E  == Edges(st)
      R  == [i \in Idx(o) |-> Reach(E, o.labels[i])]          \* computed once per observation
      MR(i, j) == o.labels[j] \in R[i] /\ o.labels[i] \in R[j]
  IN
  CASE \E i \in Idx(o) : o.eq[i][i] # 1 -> "EquivalentReflexive"
    [] \E i, j \in Idx(o) : o.eq[i][j] # o.eq[j][i] -> "EquivalentSymmetric"
    [] \E i, j \in Idx(o) : o.eq[i][j] = 1 /\ ~MR(i, j) -> "EquivalentOnlyIfMutuallyReachable"
    [] ~st.dirty /\ \E i, j \in Idx(o) : o.eq[i][j] = 0 /\ MR(i, j)
         -> "MutuallyReachableImpliesEquivalentAfterCycleDetection"
    [] \E i \in Idx(o) : (o.ver[i] = 1) # (\E j \in Idx(o) : o.eq[i][j] = 1 /\ o.labels[j] \in st.marked)
         -> "VerifiedIffSomeLabelOfClassMarked"
    [] OTHER -> "ok"
\* An explanation path for equivalent labels a, b
PathClause(st, a, b, p) ==
  CASE Len(p) = 0 -> "PathNonEmpty"
    [] p[1] # a -> "PathStartsAtFirst"
    [] p[Len(p)] # b -> "PathEndsAtSecond"
    [] \E i \in 1..(Len(p) - 1) : <<p[i], p[i + 1]>> \notin Edges(st) -> "PathFollowsRecordedEdges"
    [] OTHER -> "ok"
=============================================================================
