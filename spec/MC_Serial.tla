------------------------------ MODULE MC_Serial ------------------------------
(* Dec(Enc(r)) = r for every well-formed rule tree of depth <= 3 over a tiny universe.             *)
EXTENDS Serial
Classes == {"A", "B", "E"}            \* "E" is empty
NE == {"A", "B"}
Strats == {"s1", "s2"}
Base == {T("rule", p, ch, s, 0, <<>>, <<>>) : p \in NE, ch \in {<<"A">>, <<"B", "E">>, <<"A", "B">>, <<"E", "A">>}, s \in Strats}
        \cup {T("verification", p, <<>>, s, 0, <<>>, <<>>) : p \in NE, s \in Strats}
IsRuleForm(r) == r.form = "rule"
CanEquiv(r) == r.form \in {"rule", "reverse"} /\ Len(SelectSeq(r.children, LAMBDA c : c \in NE)) = 1
Rev1 == UNION {{MkReverse(o, i) : i \in 0..(Len(o.children) - 1)} : o \in {o \in Base : IsRuleForm(o)}}
Eq1 == {MkEquiv(o, NE) : o \in {o \in Base \cup Rev1 : CanEquiv(o)}}
EqRev == {MkEquiv(o, NE) : o \in {o \in Rev1 : CanEquiv(o)}}
Links == {r \in Eq1 \cup EqRev : Len(r.children) = 1}
Paths == {MkPath(<<a, b>>) : a \in Links, b \in Links}
Trees == Base \cup Rev1 \cup Eq1 \cup EqRev \cup {p \in Paths : p.rules[1].children[1] = p.rules[2].parent}
VARIABLES r
Init == r \in Trees
Next == UNCHANGED r
Spec == Init /\ [][Next]_r
RoundTrip == Dec(Enc(r), NE) = r
KeySetMatches == DOMAIN Enc(r) \cup {"class_module"} = KeysOf(r.form)
=============================================================================
