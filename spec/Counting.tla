------------------------------ MODULE Counting ------------------------------
(* The counting machine: rules compute the terms of their parent from terms of their children     *)
(* (and earlier terms of the parent itself).  C10: when a rule computes level n it may ask child i *)
(* only for sizes <= n - shift[i], and itself only for sizes < n.                                   *)
(* ReadClause judges one recorded computation; the model part (MC_Counting) shows that these read  *)
(* bounds are exactly what makes a productive rule set evaluable without circular waiting.          *)
EXTENDS Naturals, Integers, Sequences, FiniteSets, TLC
\* e = [level, shifts, reqs = <<<<child index (0-based), size>>>>, selfreqs = <<sizes>>]
ReadClause(e) ==
  CASE \E j \in 1..Len(e.reqs) : ~(e.reqs[j][1] \in 0..(Len(e.shifts) - 1)) -> "RequestsOnlyItsOwnChildren"
    [] \E j \in 1..Len(e.reqs) : e.reqs[j][2] > e.level - e.shifts[e.reqs[j][1] + 1] -> "ChildReadWithinDeclaredShift"
    [] \E j \in 1..Len(e.selfreqs) : e.selfreqs[j] >= e.level -> "OwnTermsReadOnlyBelowCurrentSize"
    [] OTHER -> "ok"
=============================================================================
