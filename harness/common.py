"""Plumbing shared by all drivers: run bookkeeping, evidence, known findings, replays."""
import json
import os
import sys
import time
from typing import Any, Dict, List, Optional

from . import tlc

VERIF = tlc.VERIF
# seeded-defect evaluation runs the checks against a scratch tree (VERIF_REPO) and must not clobber the
# evidence / replay files of the real tree: VERIF_SCRATCH redirects both
OUT = os.environ.get("VERIF_SCRATCH") or VERIF
REPO = os.environ.get("VERIF_REPO", "/repo")
if REPO not in sys.path:
    sys.path.insert(0, REPO)


def load_findings() -> List[dict]:
    path = os.path.join(VERIF, "known_findings.json")
    if not os.path.exists(path):
        return []
    with open(path) as f:
        return json.load(f)["findings"]


class Run:
    """One execution of one check.  Collects TLC statistics, judged traces, violations."""

    def __init__(self, pid: str, tier: str, seed: int, level: str = "model_checking"):
        self.pid, self.tier, self.seed, self.level = pid, tier, seed, level
        self.t0 = time.time()
        self.states = 0
        self.transitions = 0
        self.traces = 0
        self.events = 0
        self.evaluations = 0
        self.nontrivial: set = set()
        self.samples: List[Any] = []
        self.rule = ""
        self.assumptions: List[str] = []
        self.extra: Dict[str, Any] = {}
        self.violations: List[dict] = []
        self.known_hits: List[str] = []
        self.tlc_runs: List[dict] = []
        self.exhaustive: Optional[bool] = None
        self.findings = [f for f in load_findings() if f["property"] == pid]
        self.wd = tlc.workdir(pid)

    # -- statistics ------------------------------------------------------------------
    def add_tlc(self, res: "tlc.TLCResult", label: str) -> None:
        self.states += res.distinct
        self.transitions += res.generated
        self.tlc_runs.append({"run": label, "distinct": res.distinct, "generated": res.generated,
                              "wall_s": round(res.wall, 2), "status": res.status})

    def add_verdicts(self, v: "tlc.TraceVerdicts", label: str) -> None:
        self.states += v.distinct
        self.transitions += v.generated
        self.traces += v.total
        self.tlc_runs.append({"run": label, "traces": v.total, "accepted": v.accepted,
                              "distinct": v.distinct, "generated": v.generated, "wall_s": round(v.wall, 2)})
        if v.infos:  # notes printed by a monitor: reported, never a verdict
            notes = self.extra.setdefault("notes", [])
            for i in v.infos:
                if len(notes) < 50:
                    notes.append([str(x) for x in i[1:]])
            print("NOTE %s: %d note(s) from %s, e.g. %s" % (self.pid, len(v.infos), label, [str(x) for x in v.infos[0][1:]]))

    def sample(self, s: Any, limit: int = 6) -> None:
        if len(self.samples) < limit:
            self.samples.append(s)

    def nt(self, key: Any) -> None:
        self.nontrivial.add(key if isinstance(key, (str, int, tuple)) else json.dumps(key, sort_keys=True))

    # -- verdicts --------------------------------------------------------------------
    def violation(self, clause: str, signature: str, detail: Any) -> None:
        """Report a failed property-level clause.  `signature` identifies the failing input class."""
        sig = "%s/%s/%s" % (self.pid, clause, signature)
        for f in self.findings:
            if f.get("status") == "known" and f["signature"] == sig:
                if sig not in self.known_hits:
                    self.known_hits.append(sig)
                    print("KNOWN-FINDING: property=%s %s" % (self.pid, f["what"]), flush=True)
                return
        prev = [v for v in self.violations if v["signature"] == sig]
        if prev:  # same clause on the same input class: counted, one replay file is enough
            prev[0]["count"] += 1
            return
        os.makedirs(os.path.join(OUT, "replays"), exist_ok=True)
        path = os.path.join(OUT, "replays", "%s-%s-%d.json" % (self.pid, self.tier, len(self.violations)))
        with open(path, "w") as fh:
            json.dump({"property": self.pid, "clause": clause, "signature": sig, "detail": detail}, fh, indent=1, default=str)
        self.violations.append({"clause": clause, "signature": sig, "replay": path, "count": 1})
        if len(self.violations) <= 40:
            print("VIOLATION property=%s replay=%s" % (self.pid, path), flush=True)
            print("  clause=%s signature=%s" % (clause, sig), flush=True)

    def tlc_violation(self, res: "tlc.TLCResult", label: str) -> None:
        self.violation("Model:" + str(res.violated), label, {"tlc_cmd": res.cmd, "tail": res.out[-6000:]})

    def rejects(self, v: "tlc.TraceVerdicts", traces_by_tid: Dict[str, dict], sigfn=None) -> None:
        for r in v.rejects:
            tr = traces_by_tid.get(r["tid"])
            sig = sigfn(tr, r) if sigfn else (tr or {}).get("sig", r["tid"])
            self.violation(r["clause"], sig, {"reject": r, "trace": tr})

    # -- finish ------------------------------------------------------------------------
    def finish(self) -> int:
        wall = time.time() - self.t0
        cov: Dict[str, Any] = {
            "states": max(self.states, 0),
            "transitions": max(self.transitions, 0),
            "traces_validated_against_impl": self.traces,
            "samples": self.samples or ["(none)"],
            "evaluations": max(self.evaluations, self.traces),
            "distinct_nontrivial": len(self.nontrivial),
            "rule": self.rule,
            "tlc_runs": self.tlc_runs,
            "known_findings_hit": self.known_hits,
        }
        if self.exhaustive is not None:
            cov["exhaustive"] = self.exhaustive
        cov.update(self.extra)
        ev = {
            "property_id": self.pid,
            "tier": self.tier,
            "seed": self.seed,
            "level": self.level,
            "coverage": cov,
            "assumptions": self.assumptions,
            "wall_s": round(wall, 2),
            "violations": sum(v["count"] for v in self.violations),
        }
        os.makedirs(os.path.join(OUT, "evidence"), exist_ok=True)
        with open(os.path.join(OUT, "evidence", self.pid + ".json"), "w") as f:
            json.dump(ev, f, indent=1, default=str)
        tlc.clean_workdir(self.wd)
        print("%s %s: states=%d transitions=%d traces=%d nontrivial=%d violations=%d known=%d wall=%.1fs" % (
            self.pid, self.tier, self.states, self.transitions, self.traces, len(self.nontrivial),
            len(self.violations), len(self.known_hits), wall), flush=True)
        return 1 if self.violations else 0


class _NoStopIteration:
    """A StopIteration escaping a worker function would silently end pool.map's result for that item (it is read as the end
    of an iterator): turn it into an ordinary error."""

    def __init__(self, fn):
        self.fn = fn

    def __call__(self, x):
        # the library draws from the global random source (random proof trees, samplers): every job is made a function of
        # its own input, whichever worker runs it
        import random
        import zlib

        random.seed(zlib.crc32(repr(x).encode()))
        try:
            return self.fn(x)
        except StopIteration as e:
            raise RuntimeError("StopIteration escaped from %s" % getattr(self.fn, "__name__", self.fn)) from e


def pmap(fn, items, procs: int = 16, chunk: int = 64):
    """Parallel map with forked workers (the library is imported once in the parent)."""
    import multiprocessing as mp

    items = list(items)
    if len(items) < 2 * chunk or procs <= 1:
        return [_NoStopIteration(fn)(x) for x in items]
    ctx = mp.get_context("fork")
    with ctx.Pool(procs) as pool:
        return pool.map(_NoStopIteration(fn), items, chunksize=chunk)
