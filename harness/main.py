"""CLI: ./check <Cxx> [--tier quick|thorough] [--replay path] [--selftest]

exit 0: property held on everything explored (KNOWN-FINDING lines possible)
exit 1: VIOLATION property=<id> replay=<path>
exit 2: the machinery itself failed (never a verdict about the property)
"""
import argparse
import importlib
import logging
import os
import sys
import traceback


def main() -> int:
    ap = argparse.ArgumentParser()
    ap.add_argument("pid")
    ap.add_argument("--tier", default=os.environ.get("VERIF_TIER", "quick"), choices=["quick", "thorough"])
    ap.add_argument("--replay", default=None)
    ap.add_argument("--selftest", action="store_true")
    a = ap.parse_args()
    seed = int(os.environ.get("VERIF_SEED", "0") or 0)
    import warnings

    try:
        import comb_spec_searcher  # noqa: F401  (installs warnings.simplefilter("once"))
    except Exception:
        pass
    warnings.simplefilter("ignore")
    try:
        import logzero

        logzero.loglevel(logging.ERROR)
    except Exception:
        pass
    try:
        mod = importlib.import_module("harness.drivers." + a.pid.lower())
        if a.replay:
            return mod.replay(a.replay, seed)
        if a.selftest:
            return mod.selftest(seed)
        return mod.run(a.tier, seed)
    except SystemExit:
        raise
    except BaseException:  # machinery failure
        traceback.print_exc()
        print("MACHINERY-FAILURE check=%s (exit 2; not a verdict about the property)" % a.pid)
        return 2


if __name__ == "__main__":
    sys.exit(main())
