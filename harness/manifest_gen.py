"""Regenerates MANIFEST.json from the table below (python3 -m harness.manifest_gen)."""
import json
import os

VERIF = os.path.dirname(os.path.dirname(os.path.abspath(__file__)))

CLAIMED = {
    "C15": dict(
        category="model_checking",
        text="ClassDB.tla (abstract machine of the class database) is model-checked exhaustively by TLC (3 classes, one truly "
             "empty, integer probes -2..4, every public call); a transition cover of its state graph and simulator behaviours "
             "are replayed on real ClassDB objects (plain and zlib-compressed classes) and every recorded trace, plus the "
             "class-db traffic of real searches, is judged by TLC with Trace_ClassDB.tla.",
        design_ref="DESIGN.md 3/C15",
        note="Trusted: TLC, the Json community module, the recorder (wraps ClassDB methods, logs after return). Bounds: 3 classes "
             "in model histories; search traffic up to a few hundred classes.",
        technique="TLA+ spec + TLC model checking; spec->code replay of TLC behaviours; code->spec trace validation by TLC",
    ),
}

CLAIMED["C16"] = dict(
    category="model_checking",
    text="ClassQueue.tla holds an implementation-shaped transcription of DefaultQueue and, separately, the property as clauses "
         "P1-P5 over a ghost record of the observable call history. TLC checks transcription => clauses for every interleaving "
         "of add/stop/verified/not-inferrable/next/do_level (2-3 labels, 5-11 pack shapes, depth 9-11), exports a transition "
         "cover and simulator behaviours, which are replayed on real DefaultQueue objects; TLC judges every recorded trace "
         "(and the queue traffic of real searches) with the ghost clauses alone.",
    design_ref="DESIGN.md 3/C16",
    note="Trusted: TLC, the recorder (wraps DefaultQueue methods incl. the do_level generator). Order between labels is not "
         "demanded (divergences from the transcription are reported in the evidence, never as violations).",
    technique="TLA+ spec + TLC model checking (refinement by invariant); replay of TLC behaviours; trace validation by TLC",
)

CLAIMED["C06"] = dict(
    category="model_checking",
    text="EquivDB.tla states the equivalence database abstractly (edge sets, marks, reported partition, dirty flag) with "
         "reachability defined by fixed-point iteration. TLC explores the complete state graph over 3 labels (and bounded depth "
         "over 4, simulation over 5), exports a transition cover; each history is replayed on a real EquivalenceDB with all pairs "
         "queried after every step and explanation paths requested; TLC judges every trace (soundness always, exactness after "
         "cycle detection, verified-iff-marked, path validity) and the equivalence traffic of real searches.",
    design_ref="DESIGN.md 3/C06",
    note="Trusted: TLC, the recorder. Exactness demanded only when no edge was added since the last cycle detection.",
    technique="TLA+ spec + TLC model checking; replay of TLC behaviours; trace validation by TLC",
)

CLAIMED["C03"] = dict(
    category="model_checking",
    text="Productivity.tla defines the 'terms computable' operator and its least fixed point (Kleene and chaotic iteration, "
         "capped). TLC checks on every insertion history over small alphabets that both iterations agree, the cap is adequate "
         "and the answer is monotone, and exports every history; each is replayed into a real TableMethod (all insertion orders "
         "of all rule multisets of that size, plus seeded random histories with up to 7 classes, arity 3, shifts -3..3) and TLC "
         "judges after every insertion that the reported function equals the fixed point; forest traffic of real searches too.",
    design_ref="DESIGN.md 3/C03",
    note="Trusted: TLC; the oracle (naive capped fixed-point iteration) is independent of the gap/hold-back algorithm of the code.",
    technique="TLA+ spec + TLC model checking; replay of TLC behaviours; trace validation by TLC",
)

CLAIMED["C05"] = dict(
    category="model_checking",
    text="Prune.tla defines the greatest fixed point, iterative derivability (each in two independent ways that TLC proves equal "
         "on every dictionary over 2-3 labels), proof-tree validity and minimum tree size; RuleDB.tla adds equivalence (SCC) and "
         "'rules up to equivalence'. TLC exports every dictionary and every rule-insertion history; each goes through the real "
         "prune / iterative_prune / every finder with every outcome of the random source enumerated / the binary search behind "
         "'smallest' / a real RuleDB queried after every insertion, and TLC judges every result event; has_specification calls of "
         "real searches are judged too.",
    design_ref="DESIGN.md 3/C05",
    note="Trusted: TLC. Known finding: proof_tree_generator_bfs violates one-rule-per-class (known_findings.json). "
         "iterative_proof_tree_bfs (unexported, unused) is outside the finder list.",
    technique="TLA+ spec + TLC model checking; replay of TLC-enumerated inputs; result/trace validation by TLC",
)

CLAIMED["C04"] = dict(
    category="model_checking",
    text="Trace_Search.tla, on top of ClassDB.tla, judges every rule insertion of real searches (word universe: plain strategies, "
         "factories of strategies, factories of ready rules with foreign parents, symmetries, inferral chains, verification of "
         "atoms and non-atoms; default / memory-saving / forest rule databases; scripted time-slicings): the start label carries "
         "the rule's parent class, end labels are the children's labels in order, the rule is what a pack strategy produces when "
         "re-applied, omitted children are truly empty and declared possibly empty; labels are a bijection (ClassDB clauses run on "
         "the same stream). "
         "Search.tla now models inferral strategies (rotation / skip), symmetry expansion, strategy factories with foreign parents, several expansion sets, iterative packs and the forest database with or without reverse keys: the loops of about 300 recorded searches over 29 packs are validated step by step (Trace_SearchLoop) and every time-slicing of a sample of their universes is model-checked (MC_Search). "
         "Universe G: seeded generated rule tables (any hypergraph of rules over 3-7 opaque classes, empty / verified classes anywhere, repeated children, "
         "shifts of both signs, all flag combinations) are realised as real classes / strategies / packs, searched by the real searcher, and each "
         "recorded loop is validated against Search.tla instantiated with the generated table itself (60 universes quick / 120 thorough; 8 / 20 of them model-checked for all slicings).",
    design_ref="DESIGN.md 3/C04",
    note="Trusted: TLC; the session recorder (wraps ruledb.add, _rules_from_strategy, ClassDB methods). The ClassDB model it rests "
         "on is model-checked under C15. Re-application of the strategy is executed by the harness and compared by TLC.",
    technique="TLA+ spec (ClassDB + rule-insertion clauses); trace validation of recorded searches by TLC",
)

CLAIMED["C14"] = dict(
    category="model_checking",
    text="RuleDB.tla specifies the pruning rule database (stored keys, equivalence edges, rules up to equivalence, specification "
         "existence). During real searches every rule given to the searcher's database is also fed to two lockstep shadows (default "
         "and memory-saving), and after every single insertion both are observed (stored keys, membership of stored and non-stored "
         "keys in any child order, is_verified of every label, has_specification, re-application of the strategy handed back for "
         "each stored key). TLC judges with Trace_RuleDB.tla that both are behaviours of RuleDB.tla and agree with each other. The campaign includes a pack with an involutive two-way expansion strategy (the same equivalence arrives in both directions).",
    design_ref="DESIGN.md 3/C14",
    note="Trusted: TLC, the lockstep harness. is_verified is compared between the flavours only (its exact value depends on when "
         "has_specification was last asked; both shadows see identical call sequences).",
    technique="TLA+ spec; lockstep trace validation of two implementations against one specification by TLC",
)

CLAIMED["C01"] = dict(
    category="model_checking",
    text="WordUniverse.tla defines the ground truth of the fixture universe (objects by set comprehension, statistics, terms; a "
         "second dynamic-programming definition is proved equal by TLC on 2744 classes). Every specification handed back by the "
         "search campaign (three rule databases; packs with symmetries, inferral, merged/dropped statistics, factories, iterative, "
         "non-atom verification; 'smallest'; scripted time-slicings so that every slicing pattern is reachable) has its root "
         "enumeration for n <= 6 and every parameter tuple judged by TLC against that truth. "
         "Also: every productive system of the tree universe (TreeUniverse.tla; chosen by TLC, MC_TreeSystems) is built as a real specification and its counts for n <= 5 are judged against the TLA+-defined parse trees.",
    design_ref="DESIGN.md 3/C01",
    note="Trusted: TLC; the fixture classes' description sent to TLA+ (prefix, patterns, alphabet, statistics) is the class itself. "
         "Bounds: n <= 6 (2 letters) / 5 (3 letters).",
    technique="TLA+ ground-truth specification; result validation of recorded searches by TLC; scripted clock for schedules",
)
CLAIMED["C02"] = dict(
    category="model_checking",
    text="SpecValid.tla states closedness, one-rule-per-class, genuineness (re-application of the rule's strategy and the algebra "
         "of derived forms: equivalence, reverse, path) and productivity by the independent least fixed point of Productivity.tla "
         "over (parent, children, shifts). Every specification of the campaign is judged twice: the raw rule list handed out by "
         "the rule database (so duplicates cannot hide in a dictionary) and the final rules after path grouping.",
    design_ref="DESIGN.md 3/C02",
    note="Trusted: TLC; re-application is executed by the harness and compared by TLC. Semantic genuineness (children really "
         "partition/factor the parent) is the strategy contract, checked for the fixture under C09.",
    technique="TLA+ specification of validity + independent fixed point; result validation by TLC",
)

CLAIMED["C17"] = dict(
    category="fault_enumeration",
    text="Every prefix length k of the expansion sequence is reached with a scripted clock (single-packet slices; the time limit "
         "placed right after the k-th packet), for each rule-database flavour and two continuations. At k the searcher is pickled "
         "and restored; Resume.tla (product construction) demands restored == original and that both copies, given the same "
         "further calls, expand the same work, build the same classes/labels/emptiness/rules/verified set and give the same "
         "answers and enumeration; the interrupted original's queue traffic must be a behaviour of ClassQueue.tla with no handed-out "
         "packet lost, and the specification finally returned is judged by SpecValid/WordUniverse (C01/C02). TLC judges all traces. "
         "After the continuation both copies are asked for the specification again with no work in between. Loop conformance against Search.tla (forest database, several strategies per class: a class may become verified by one of its own earlier packets, so expand-or-skip must be decided per packet).",
    design_ref="DESIGN.md 3/C17",
    note="Trusted: TLC, the scripted clock (replaces the time module inside comb_spec_searcher.comb_spec_searcher), pickle. Identity "
         "of returned rules is not demanded across a pickle, only validity and counts.",
    technique="crash-point enumeration with a scripted clock; TLA+ product-construction clauses; trace validation by TLC",
)

CLAIMED["C11"] = dict(
    category="model_checking",
    text="ForestExtract.tla states the post-conditions of extraction over Productivity.tla (subset of inserted keys, productive for "
         "the root, one rule per mentioned class, closed, unproductive if any single rule is removed, reverse rules only if needed). "
         "TLC proves on all small universes that a minimal productive set is functional and closed and exports the pumping "
         "universes; each, under several bucket assignments, and seeded random universes go through the real ForestRuleExtractor on "
         "a real TableMethod; forest searches (reverse on/off, incl. a pack needing reverse rules) have their extraction and the "
         "concrete rules handed out recorded; TLC judges every extraction. "
         "A forest search that raises out of the extraction is a violation of its own (no concrete rule re-created for an extracted key).",
    design_ref="DESIGN.md 3/C11",
    note="Trusted: TLC; needed_rules is read from the extractor after _minimize; the independent fixed point decides productivity.",
    technique="TLA+ spec + TLC model checking; replay of TLC-enumerated universes; trace validation by TLC",
)

CLAIMED["C09"] = dict(
    category="model_checking",
    text="Every rule of the fixture list and every form the library derives from it (reverse w.r.t. each child = complement/"
         "quotient, equivalence form, reverse of the equivalence form, equivalence paths incl. one through a reverse rule) computes "
         "its parent's terms for n <= 6 from providers handing out the children's true terms, with 0-3 statistics including "
         "statistics merged onto one child statistic and statistics dropped by the child; TLC judges each result against the "
         "TLA+-defined truth of the form's parent (all parameter tuples).",
    design_ref="DESIGN.md 3/C09", note="Trusted: TLC; WordUniverse.tla (two definitions proved equal under C01); the rule laboratory's recording providers (their outputs are validated against the truth by TLC; a mismatch is exit 2).",
    technique="TLA+ ground-truth specification; result validation of isolated rule forms by TLC",
)
CLAIMED["C10"] = dict(
    category="model_checking",
    text="Counting.tla: while computing level n a rule may ask child i only for sizes <= n - shift[i] and itself only below n. "
         "MC_Counting shows by exhaustive exploration that under exactly these read bounds every rule set accepted by "
         "Productivity.tla is evaluated without circular waiting (and that reading one term further breaks this). The recorded "
         "requests of every rule form of the laboratory (reverse rules included, whose shifts are derived arithmetically), n <= 6, are "
         "judged by TLC against the bounds.",
    design_ref="DESIGN.md 3/C10", note="Trusted: TLC; WordUniverse.tla (two definitions proved equal under C01); the rule laboratory's recording providers (their outputs are validated against the truth by TLC; a mismatch is exit 2).",
    technique="TLA+ spec + TLC model checking (design bridge); trace validation of recorded provider requests by TLC",
)
CLAIMED["C07"] = dict(
    category="model_checking",
    text="Objects generated by every rule form that supports it (from the children's true objects) and by the root and every rule of "
         "campaign specifications are judged by TLC against Objs(c, n) of WordUniverse.tla: exact set per parameter value, no "
         "repetition, number = the count the same rule/specification reports; forward_map then backward_map on every object, parts "
         "in the child classes, right shape for unions / products (plain, equivalence, reverse-of-equivalence, path forms). "
         "Also: generation from the real specifications of all TLC-chosen productive systems of the tree universe, judged against TreeUniverse.tla (each object once, exactly the objects of that size).",
    design_ref="DESIGN.md 3/C07", note="Trusted: TLC; WordUniverse.tla (two definitions proved equal under C01); the rule laboratory's recording providers (their outputs are validated against the truth by TLC; a mismatch is exit 2).",
    technique="TLA+ ground-truth specification; result validation by TLC",
)
CLAIMED["C08"] = dict(
    category="model_checking",
    text="Sampling.tla. The random source is enumerated, not sampled: at every rule form, for every (n, parameters) and EVERY r in "
         "1..N the selected branch is recorded and TLC requires each branch to be selected exactly as often as the objects it "
         "accounts for (computed from the true child counts) with weights summing to N; for whole specifications every complete "
         "sampler run over all outcomes of the random source is enumerated and TLC checks that each object of the class collects "
         "probability exactly 1/N (integer arithmetic over a common denominator); the documented refusal when N = 0.",
    design_ref="DESIGN.md 3/C08", note="Trusted: TLC; WordUniverse.tla (two definitions proved equal under C01); the rule laboratory's recording providers (their outputs are validated against the truth by TLC; a mismatch is exit 2).",
    technique="TLA+ spec of uniformity; exhaustive enumeration of the random source; result validation by TLC",
)

CLAIMED["C19"] = dict(
    category="model_checking",
    text="Expand.tla (same start class, no verified class offering a pack remains, no shared rule object, original unchanged) "
         "together with SpecValid.tla and WordUniverse.tla judge expand_verified() on specifications with 1-6 strategy-verified "
         "classes (verified root, verified classes beside symmetry/inferral equivalences, factories, a verification pack that needs "
         "reverse rules), produced by each of the three rule databases under scripted time-slicings. "
         "Also: nested verification packs (the offered pack itself verifies, with a pack-offering strategy, classes that only appear in the expansion, or the very same class again so that it has to be expanded once per verification strategy) and originals that already contain a reverse rule while the verified class needs the reverse fallback.",
    design_ref="DESIGN.md 3/C19",
    note="Trusted: TLC; rule-object identity is read with id() while all original rules are kept alive. The inner forest searches "
         "are judged by their product only.",
    technique="TLA+ post-condition specification; result validation by TLC",
)

CLAIMED["C12"] = dict(
    category="model_checking",
    text="Iso.tla over WordUniverse.tla: for every constructed bijection (pairs from a pool of specifications found under the "
         "three rule databases with plain / symmetry / inferral packs, mirror pairs forced in; pairs returned by the parallel "
         "finder under C13; bijections reloaded from JSON) the complete map and inverse tables for n <= 6 are judged by TLC: into "
         "the second class's objects of the same size, one-to-one, onto, both inverse laws; the isomorphism test is symmetric and "
         "reflexive on specifications whose verified classes are atoms. Nothing is demanded when no bijection is returned. "
         "Also: pairs of TLC-chosen productive systems of the tree universe (all 340 with two internal classes, a random part with three) built as real specifications: isomorphism test both ways, reflexivity, and every constructed bijection's complete tables for n <= 4 judged against TreeUniverse.tla; random three-letter pattern sets against their renamed images over all packs and rule databases (D14 was found there). Bisim.tla (greatest bisimulation, lemma checked by MC_Bisim) is compared with the library's test (disagreements are notes).",
    design_ref="DESIGN.md 3/C12",
    note="Trusted: TLC; objects are enumerated from the fixture classes and checked by TLC to be exactly Objs(c, n).",
    technique="TLA+ ground-truth specification of bijectivity; result validation by TLC",
)
CLAIMED["C13"] = dict(
    category="model_checking",
    text="Every ordered pair of searchers (start classes x {plain, symmetry, inferral, both}) x both finder variants: TLC judges "
         "the outcome (nothing / pair; any exception is a violation of totality), that a returned pair is isomorphic and yields a "
         "bijection (whose tables are judged as in C12), and that each returned specification is valid and enumerates its own "
         "start class (SpecValid.tla / WordUniverse.tla, C01/C02 clauses). "
         "The isomorphism of a returned pair is also judged independently by Bisim.tla (greatest bisimulation; its greedy child pairing is proved exact by MC_Bisim). Packs with two competing expansion strategies over three letters (forced configurations and, in the thorough tier, 1500 random pattern sets) exercise the second search's backtracking (D12, D13).",
    design_ref="DESIGN.md 3/C13",
    note="Trusted: TLC. Preconditions of the finder respected: default rule database, atom verification.",
    technique="TLA+ specifications (Iso, SpecValid, WordUniverse); result validation by TLC over all pairs",
)

CLAIMED["C18"] = dict(
    category="model_checking",
    text="Serial.tla fixes the wire format of each rule form (which keys, which nesting) and its inverse; TLC proves Dec(Enc(r)) = r "
         "and the key sets on all rule trees of depth <= 3. For every rule (nested ones included) of every campaign specification "
         "- plain, verification, equivalence, equivalence path, reverse - TLC checks that the projected emitted dictionary is "
         "Enc(form tree), has exactly the keys of its form, decodes to the same tree, that the reloaded rule has the same tree "
         "and == holds; the reloaded specification equals the original and enumerates the ground truth, also when the round trip is made after the original was used for counting (verification strategies counting through a pack of their own included); packs round-trip slot "
         "by slot; strategy equality = same kind and settings for instances obtained directly, through a generic alias, by "
         "from_dict, copy, deepcopy and pickle (and inequality for different settings/kinds). Bijection round trips: C12. "
         "Bijections (also between specifications matching only up to unrolling a recursion) are dumped, reloaded and compared with the original on all objects up to size 5.",
    design_ref="DESIGN.md 3/C18",
    note="This family decides structure (wire format, form algebra, equality semantics, behaviour of the reloaded object), not byte-"
         "level fidelity of user classes' JSON, which is an input contract.",
    technique="TLA+ wire-format model + TLC model checking; result validation by TLC",
)

CLAIMED["C20"] = dict(
    category="model_checking",
    text="Series.tla (truncated multivariate integer series: add, multiply, power, substitution of monomials into a class's true "
         "series) evaluates every equation of every campaign specification - exported as the AST of the numerator of lhs - rhs - "
         "with each class function replaced by the TLA+-defined true series in x and the statistics; it must vanish up to order N. "
         "A returned closed form, normalised to P/Q over Z[x], must satisfy Q*C = P up to an order M beyond which equality is "
         "forced by a degree argument (C = dynamic-programming counts of WordUniverse.tla), i.e. at every order. "
         "Also: the equation of every rule form (rule, reverse, equivalence, equivalence of a reverse, equivalence paths) of the rule laboratory in isolation.",
    design_ref="DESIGN.md 3/C20",
    note="Trusted: TLC; sympy's together/expand/cancel for translating expressions (the identities themselves are evaluated by TLC).",
    technique="TLA+ series algebra over the ground-truth specification; result validation by TLC",
)

NOT_YET = {}

ALL = ["C%02d" % i for i in range(1, 21)]


def main():
    checks = []
    for pid in ALL:
        if pid not in CLAIMED:
            continue
        c = CLAIMED[pid]
        checks.append({
            "property_id": pid,
            "quick_cmd": "./check %s --tier quick" % pid,
            "thorough_cmd": "./check %s --tier thorough" % pid,
            "evidence_file": "/verif/evidence/%s.json" % pid,
            "replay_cmd_template": "./check %s --replay {path}" % pid,
            "engine": "tlc",
            "level_claimed": {"category": c["category"], "text": c["text"], "design_ref": c["design_ref"]},
            "level_note": c["note"],
            "technique": c["technique"],
        })
    na = [{"property_id": p, "reason": NOT_YET.get(p, "specification module and binding not built yet in this round (planned, see DESIGN.md section 6); not decided by any other technique")}
          for p in ALL if p not in CLAIMED]
    m = {
        "version": 1,
        "setup_cmd": "true",
        "hooks": {
            "guard": "COMB_SPEC_SEARCHER_VERIF",
            "enable": "no source hooks: recorders wrap the library's callables from the harness process (./check sets COMB_SPEC_SEARCHER_VERIF=1, unused by /repo)",
            "baseline_off_cmd": "cd /repo && /venv/bin/python -m pytest -ra -q -p no:cacheprovider --timeout=900 --continue-on-collection-errors",
            "source_commits": [],
            "add_only": True,
        },
        "engines": [{"name": "tlc", "path": "/verif/spec", "serves_properties": sorted(CLAIMED),
                     "kind_free_text": "explicit TLA+ specifications checked by TLC 1.8; trace validation and behaviour replay bind them to the Python code"}],
        "checks": checks,
        "not_applicable": na,
        "notes": "Every check: ./check <id> --tier quick|thorough. Exit 0 held, 1 VIOLATION, 2 machinery failure. Known findings: /verif/known_findings.json.",
    }
    with open(os.path.join(VERIF, "MANIFEST.json"), "w") as f:
        json.dump(m, f, indent=1)
    print("MANIFEST.json:", len(checks), "checks,", len(na), "not applicable")


if __name__ == "__main__":
    main()
