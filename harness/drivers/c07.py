"""C07 - object generation yields exactly the objects of the class, each once.
C08 - random sampling from a specification is exactly uniform.            (shared driver code)

Rule level: every rule form of the rule laboratory that supports it generates objects from the
children's true objects (C07: exact set, no repetition, number = the count the same rule reports;
forward_map then backward_map on every object, parts in the child classes) and samples with the
random source enumerated (C08: for every r in 1..N the selected branch is recorded; a branch must be
selected exactly as often as the objects it accounts for, computed by TLC from the true child counts).
Specification level: for specifications of the search campaign the root's (and every rule's)
generated objects are judged against the truth (C07), and every complete run of the sampler over all
outcomes of the random source gives each object total probability exactly 1/N (C08), plus the
documented refusal when there is no object.  TLC judges with Trace_Count.tla / Sampling.tla.
"""
import json
import math
import random

from .. import tlc
from ..common import Run, pmap
from ..enumrng import all_runs
from .. import rulelab
from . import c09
from . import search_campaign as sc


def spec_job(args):
    """Worker: one campaign search; objects of root and of every rule (C07) or exhaustive sampling runs (C08)."""
    cfg, what = args
    from ..session import Session
    from ..specdesc import terms_list

    start, pack = sc.build(cfg)
    prefix, pats, alph, st, pk, fl, sch, reverse = cfg
    s = Session(start, pack, flavour=fl, schedule=sc.SCHEDULES[sch], reverse=reverse, record=())
    events = []
    try:
        outcome, spec = s.run()
        if outcome != "spec":
            return None
        namer = s.namer
        if what == "objects":
            for rule in list(spec.rules_dict.values()):
                c = rule.comb_class
                for n in range(5):
                    try:
                        objects = rule.get_objects(n)
                        terms = terms_list(rule.get_terms(n))
                    except NotImplementedError:
                        break
                    except Exception as e:
                        events.append({"op": "objects", "form": "spec:" + type(rule).__name__, "c": namer(c), "n": n, "objs": [[[-7], [[1]]]],
                                       "terms": [], "partial": False, "error": type(e).__name__ + str(e)[:100]})
                        break
                    events.append({"op": "objects", "form": "spec:" + type(rule).__name__, "c": namer(c), "n": n,
                                   "objs": rulelab.objs_list(c, objects), "terms": terms, "partial": False})
            root = spec.root
            for n in range(6):
                for params in root.possible_parameters(n):
                    try:
                        got = list(spec.generate_objects_of_size(n, **params))
                    except NotImplementedError:
                        break  # the root rule does not support object generation (e.g. a reverse rule)
                    p = [int(params[k]) for k in root.extra_parameters]
                    events.append({"op": "objects", "form": "spec:root-generate", "c": namer(root), "n": n,
                                   "objs": [[p, [rulelab.word_ints(root, w) for w in got]]],
                                   "terms": [[p, int(spec.count_objects_of_size(n, **params))]], "partial": True})
        else:
            import comb_spec_searcher.strategies.constructor.cartesian as cart
            import comb_spec_searcher.strategies.constructor.disjoint as disj
            import comb_spec_searcher.strategies.rule as rulemod
            from comb_spec_searcher.exception import InvalidOperationError

            root = spec.root
            from ..universes import words as WU

            old = (disj.randint, cart.random, rulemod.random)
            old_rng = WU.RNG
            try:
                for n in range(6):
                    terms = spec.get_terms(n)
                    for p, cnt in sorted(terms.items()):
                        if cnt <= 0 or cnt > 40:
                            continue
                        params = dict(zip(root.extra_parameters, p))
                        runs = []

                        def one(dec):
                            disj.randint, cart.random, rulemod.random = dec.randint, dec, dec
                            WU.RNG = dec
                            obj = spec.random_sample_object_of_size(n, **params)
                            return obj, list(dec.arity[: dec.pos])

                        try:
                            for _script, (obj, ar) in all_runs(one, limit=3000):
                                runs.append({"obj": rulelab.word_ints(root, obj), "arities": [int(a) for a in ar]})
                        except NotImplementedError:
                            continue  # this specification does not support sampling (e.g. it contains reverse rules)
                        except Exception as e:
                            events.append({"op": "global", "c": namer(root), "n": n, "params": [int(x) for x in p], "count": int(cnt), "D": 1,
                                           "runs": [{"obj": [-1], "arities": [1]}], "error": type(e).__name__ + str(e)[:80]})
                            continue
                        if len(runs) >= 3000:
                            continue
                        D = int(cnt)
                        for r in runs:
                            D = D * math.prod(r["arities"]) // math.gcd(D, math.prod(r["arities"]))
                        if D >= 2 ** 30:
                            continue
                        events.append({"op": "global", "c": namer(root), "n": n, "params": [int(x) for x in p], "count": int(cnt), "D": D, "runs": runs})
                # documented refusal
                for n in range(4):
                    if sum(spec.get_terms(n).values()) == 0:
                        try:
                            spec.random_sample_object_of_size(n, **{k: 0 for k in root.extra_parameters})
                            raised = "nothing"
                        except Exception as e:
                            raised = type(e).__name__
                        events.append({"op": "refuse", "c": namer(root), "n": n, "raised": raised})
                        break
            finally:
                disj.randint, cart.random, rulemod.random = old
                WU.RNG = old_rng
        classes = {n: cl.desc() for cl, n in namer.names.items() if hasattr(cl, "desc")}
    finally:
        s.close()
    return {"tid": "spec:" + sc.tid_of(cfg), "classes": classes, "events": events}


def run(tier: str, seed: int, pid="C07") -> int:
    run_ = Run(pid, tier, seed)
    what = ("objects",) if pid == "C07" else ("draws",)
    res = pmap(rulelab.lab_job, c09.jobs(tier, seed, what), procs=16, chunk=2)
    traces = []
    for r in res:
        if r["events"]:
            traces.append({"tid": r["tid"], "classes": r["classes"], "events": r["events"]})
            run_.events += len(r["events"])
            for e in r["events"]:
                if pid == "C07" and e["op"] == "objects" and sum(len(x[1]) for x in e["objs"]) >= 2:
                    run_.nt(r["tid"] + e["form"] + str(e["n"]))
                if pid == "C08" and e["op"] == "draw" and len(e["branches"]) >= 2:
                    run_.nt(r["tid"] + e["form"] + str(e["n"]) + str(e["params"]))
    packs = [p for p in sc.PACKS if p not in sc.OPT_IN] + ["fold"]
    cfgs = sc.configs(tier, seed, stats=("s0", "s1", "s2m"), packs=packs, max_n=(70 if tier == "quick" else 900))
    sres = [r for r in pmap(spec_job, [(c, "objects" if pid == "C07" else "global") for c in cfgs], procs=16, chunk=2) if r and r["events"]]
    for r in sres:
        traces.append(r)
        run_.events += len(r["events"])
        run_.nt(r["tid"])
    run_.evaluations = len(traces)
    ex = next(e for t in traces for e in t["events"] if e["op"] in ("objects", "draw", "global") and (len(e.get("objs", [])) or len(e.get("branches", [])) >= 2 or e.get("runs")))
    run_.sample({"event": ex})
    c09.judge(run_, traces, "lab+specs", pid)
    if pid == "C07":
        # specifications chosen by TLC (every productive system of the tree universe): generation judged against TreeUniverse.tla
        from . import c12
        c12.tree_gen_traces(run_, tier, seed, ("gen",))
    run_.rule = ("rule level: fixture classes x strategies x derived forms that support objects/maps resp. sampling, n <= 5; "
                 "specification level: campaign specifications (root and every rule) resp. all complete sampler runs for every (n, "
                 "parameters) with <= 40 objects; non-trivial = >= 2 objects generated / a draw with >= 2 branches / a specification")
    run_.extra["events_judged"] = run_.events
    run_.assumptions = ["children's true objects / counts are supplied by the fixture classes' brute force (validated against "
                        "WordUniverse.tla under C09)", "global uniformity is skipped when the common denominator exceeds 2^30 or there "
                        "are more than 3000 sampler runs (the local clause still decides)"]
    return run_.finish()


def selftest(seed: int, pid="C07") -> int:
    run_ = Run(pid, "quick", seed)
    job = ((("", ("aa",), ("a", "b"), False, (("k1", "a"),)), "Expand"), "quick", ("objects",) if pid == "C07" else ("draws",))
    r = rulelab.lab_job(job)
    good = {"tid": "good", "classes": r["classes"], "events": r["events"]}
    bad1 = json.loads(json.dumps(good)); bad1["tid"] = "corrupt"
    if pid == "C07":
        e = next(e for e in bad1["events"] if e["op"] == "objects" and e["n"] == 3)
        e["objs"][0][1].append(e["objs"][0][1][0])  # an object generated twice
    else:
        e = next(e for e in bad1["events"] if e["op"] == "draw" and len(e["branches"]) >= 2)
        i = e["sel"].index(1)
        e["sel"][i] = 0  # threshold slip: one outcome goes to the wrong branch
    v = tlc.validate_traces(run_.wd, "Trace_Count", [good, bad1], jvms=1)
    rejected = {x["tid"]: x["clause"] for x in v.rejects}
    tlc.clean_workdir(run_.wd)
    ok = set(rejected) == {"corrupt"}
    print("selftest %s: rejected=%s -> %s" % (pid, rejected, "OK" if ok else "FAILED"))
    return 0 if ok else 2


replay = c09.replay
