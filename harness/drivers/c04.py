"""C04 - the rule universe built by the searcher is faithful to the strategies.

code -> spec: every rule insertion of every search of the campaign (word universe; plain strategies,
factories yielding strategies, factories yielding ready rules with a foreign parent, symmetries,
inferral chains, verification strategies incl. non-atom ones; all three rule-database flavours; many
time-slicings) is recorded together with the class-database calls around it and judged by TLC with
Trace_Search.tla on top of ClassDB.tla: the start label carries the rule's parent class, the end
labels are the labels of the children in order, the rule is what a strategy of the pack produces
for that class (re-applied), nothing is stored for a strategy that does not apply, a child label is
omitted from the stored key only if its class is truly empty and the strategy declared possibly
empty, and the forest flavour stores only the rule's key, its reverses and empty rules of truly
empty classes.
"""
import json

from .. import tlc
from ..common import Run
from . import search_campaign as sc


def judge(run: Run, traces, label):
    v = tlc.validate_traces(run.wd, "Trace_Search", traces, jvms=14, tag=label, timeout=3000)
    run.add_verdicts(v, "Trace_Search " + label)
    by = {t["tid"]: t for t in traces}

    def sig(tr, r):
        parts = tr["tid"].split("|")
        return "pack=%s/flavour=%s" % (parts[4], parts[5])

    run.rejects(v, by, sig)
    return v


def run(tier: str, seed: int) -> int:
    run_ = Run("C04", tier, seed)
    cfgs = sc.configs(tier, seed, stats=("s0", "s2m"), max_n=(260 if tier == "quick" else 4000))
    res = sc.run_campaign(cfgs, ["search"])
    traces = []
    outcomes = {}
    for r in res:
        outcomes[r["outcome"][:40]] = outcomes.get(r["outcome"][:40], 0) + 1
        tr = r["search"]
        traces.append(tr)
        rules = [e for e in tr["events"] if e["op"] == "rule"]
        run_.events += len(tr["events"])
        if len(rules) >= 3 and any(len(e["stored"]) and len(e["stored"][0]["e"]) < len(e["ends"]) for e in rules):
            run_.nt(tr["tid"])  # a search in which some empty child was omitted from a stored key
        elif len(rules) >= 3 and any(e["origin_cls"] != e["c"] for e in rules):
            run_.nt(tr["tid"])  # a foreign-parent rule
    run_.evaluations = len(traces)
    t0 = traces[0]
    run_.sample({"tid": t0["tid"], "pack": t0["pack"], "rule_events": [e for e in t0["events"] if e["op"] == "rule"][:3]})
    judge(run_, traces, "search")
    # the whole expand / check loop against Search.tla (model of the searcher composed of ClassDB, ClassQueue, RuleDB)
    from .. import searchmodel

    jobs, rejected, nmc = searchmodel.campaign(run_, tier, seed, want_mc=True)
    for job, r in rejected:
        run_.violation(r["clause"], "search-loop/" + job["sig"], {"reject": r, "trace": {"tid": job["tid"], "events": job["events"]}, "universe": job["universe"]})
    run_.extra["search_loops_validated_against_Search_tla"] = len(jobs)
    # universe G: generated rule tables (any hypergraph of rules, empty / verified classes anywhere, shifts of both signs) realised as
    # real classes and strategies; the table handed to TLC is the generated one, not what the strategies answer when re-applied
    gjobs, grejected, gmc = searchmodel.table_campaign(run_, tier, seed)
    for job, r in grejected:
        run_.violation(r["clause"], "search-loop/" + job["sig"], {"reject": r, "trace": {"tid": job["tid"], "events": job["events"]}, "universe": job["universe"]})
    run_.extra["generated_table_universes_validated_against_Search_tla"] = len(gjobs)
    run_.extra["generated_table_universes_model_checked_for_all_slicings"] = gmc
    run_.extra["universes_model_checked_for_all_slicings"] = nmc
    run_.rule = ("one trace per search of the campaign (start classes x packs x rule-db flavours x time-slicings, seeded subset in "
                 "the quick tier); every rule insertion and class-db call is an event; non-trivial = a search in which an empty "
                 "child was omitted from a stored key or a rule with a foreign parent was recorded")
    run_.extra["events_judged"] = run_.events
    run_.extra["search_outcomes"] = outcomes
    run_.assumptions = ["fixture strategies honour the strategy contracts (validated separately against WordUniverse.tla)",
                        "keys stored per insertion are read through the rule databases' public iteration (forest: table_method._rules)"]
    return run_.finish()


def selftest(seed: int) -> int:
    run_ = Run("C04", "quick", seed)
    cfg = ("", ("aa",), "ab", "s0", "plain", "default", "one", True)
    good = sc.run_one((cfg, ("search",)))["search"]
    bad1 = json.loads(json.dumps(good)); bad1["tid"] = "corrupt"
    for e in bad1["events"]:
        if e["op"] == "rule" and len(e["ends"]) >= 2:
            e["ends"][0], e["ends"][1] = e["ends"][1], e["ends"][0]  # children labelled out of order
            break
    bad2 = json.loads(json.dumps(good)); bad2["tid"] = "dropped"
    for i, e in enumerate(bad2["events"]):
        if e["op"] == "get_label" and e["ret"]["i"] == 2:
            del bad2["events"][i]  # the labelling of one class is missing
            break
    good["tid"] = "good"
    v = tlc.validate_traces(run_.wd, "Trace_Search", [good, bad1, bad2], jvms=1)
    rejected = {r["tid"]: r["clause"] for r in v.rejects}
    tlc.clean_workdir(run_.wd)
    ok = set(rejected) == {"corrupt", "dropped"}
    # binding of Search.tla: the recorded loop is accepted; a corrupted rule count and a dropped step are rejected
    from .. import searchmodel

    run2 = Run("C04", "quick", seed)
    job = searchmodel.run_model_session(("", ("aba", "bb"), "ab", "s0", "plain", "default", "mixed", True))
    j1 = json.loads(json.dumps(job)); j1["tid"] = "loop-corrupt"
    next(e for e in j1["events"] if e["op"] == "packet" and e["nrules"] > 2)["nrules"] += 1
    j2 = json.loads(json.dumps(job)); j2["tid"] = "loop-dropped"
    k = next(i for i, e in enumerate(j2["events"]) if e["op"] == "packet" and e["kind"] == "expand" and i > 0 and e["nlabels"] > 1)
    del j2["events"][k]  # a state-changing step (a dropped no-op check would rightly be accepted)
    res = [searchmodel.validate_loop(run2, j, str(i)) for i, j in enumerate((job, j1, j2))]
    tlc.clean_workdir(run2.wd)
    ok2 = [v.accepted for v in res] == [1, 0, 0]
    print("selftest C04: rejected=%s -> %s; Search.tla loop binding accepted/corrupt/dropped = %s -> %s" % (
        rejected, "OK" if ok else "FAILED", [v.accepted for v in res], "OK" if ok2 else "FAILED"))
    return 0 if ok and ok2 else 2


def replay(path: str, seed: int) -> int:
    d = json.load(open(path))
    tr = d["detail"].get("trace")
    r = d["detail"].get("reject")
    if tr and r:
        print(d["clause"], "event", r["event"], json.dumps(tr["events"][r["event"] - 1], indent=1)[:3000])
    return 1
