"""C17 - a search pickled or interrupted at any point resumes faithfully.

For every prefix length k of the expansion sequence (scripted clock: single-packet slices, time limit
placed so that ExceededMaxtimeError fires right after the k-th packet), every rule-database flavour
and two ways of splitting the remaining work:
  * the interrupted searcher is pickled and restored; `restored == original` is recorded; both
    copies then receive the same further calls and are observed (work expanded, classes/labels,
    cached emptiness, rule keys, verified set, has_specification answers, outcome, enumeration);
  * the original's queue traffic across the interruption must be a behaviour of ClassQueue.tla and
    no handed-out packet may be lost; the specification finally returned is judged as in C01/C02.
TLC is the judge of all of it (Trace_Resume, Trace_ClassQueue, Trace_Spec).
"""
import json
import pickle
import random

from .. import tlc
from ..common import Run, pmap
from ..session import Session
from . import search_campaign as sc
from . import c16

CONT = {"single": (0,), "one": (10000,)}


def observe(s: Session, since, outcome, spec, namer):
    db = s.classdb
    with s.cdb_rec.paused():
        n = len(db.label_to_info)
        store = [namer(db.get_class(l)) for l in range(n)]
        empt = [("U" if e is None else ("T" if e else "F")) for e in list(db.empty_list)]
        ver = [1 if s.ruledb.is_verified(l) else 0 for l in range(n)]
        if s.flavour == "forest":
            keys = [[int(k.parent), [int(c) for c in k.children], [int(x) for x in k.shifts], k.bucket.name] for k in s.ruledb.table_method._rules]
        else:
            keys = sorted([int(a), [int(x) for x in e]] for a, e in s.ruledb)
        terms = []
        if spec is not None:
            from ..specdesc import terms_list

            for nn in range(5):
                try:
                    terms.append(terms_list(spec.get_terms(nn)))
                except Exception as e:
                    terms.append([[[-1], 1]])
    return {"packets": [p.get("p", p) for p in s.packets[since:]], "store": store, "empt": empt, "keys": keys, "ver": ver,
            "answers": [1 if a else 0 for a in s.answers], "outcome": outcome if outcome in ("spec", "none", "timeout") else "error", "terms": terms}


def total_packets(cfg):
    start, pack = sc.build(cfg)
    s = Session(start, pack, flavour=cfg[5], schedule=(0,), record=())
    try:
        outcome, _ = s.run()
    finally:
        s.close()
    return len(s.packets), outcome


def fork_job(args):
    cfg, k, cont, full_outcome = args
    start, pack = sc.build(cfg)
    fl = cfg[5]
    tid = "%s|k=%d|%s" % (sc.tid_of(cfg), k, cont)
    a = Session(start, pack, flavour=fl, schedule=(0,), record=("queue",))
    out = {"tid": tid, "flavour": fl, "resume": None, "queue": None, "spec": None, "skipped": False}
    b = None
    try:
        if k > 0:
            outcome, _ = a.run(max_expansion_time=k - 0.5)
            if outcome != "timeout":
                out["skipped"] = True
                return out
        k_real = len(a.packets)
        # ---- save and restore
        try:
            blob = pickle.dumps(a.searcher)
            restored = pickle.loads(blob)
        except Exception as e:
            # a searcher that cannot be saved / restored at this point: reported by the fork clause, nothing to continue with
            out["resume"] = {"tid": tid, "events": [{"op": "fork", "k": k_real, "equal": "pickle:" + type(e).__name__}], "sig": "flavour=%s" % fl}
            out["queue"] = None
            out["k"] = k_real
            return out
        try:
            equal = "T" if restored == a.searcher else "F"
        except Exception as e:
            equal = type(e).__name__
        events = [{"op": "fork", "k": k_real, "equal": equal}]
        b = Session.adopt(restored, pack, fl, schedule=CONT[cont], record=("queue",), namer=a.namer)
        a.schedule, a.sched_pos, a.answers = list(CONT[cont]), 0, []
        # ---- the same further calls on both copies
        oa, sa = a.run()
        ob, sb = b.run()
        obs_a = observe(a, k_real, oa, sa if oa == "spec" else None, a.namer)
        obs_b = observe(b, 0, ob, sb if ob == "spec" else None, a.namer)
        # the same question again (no work in between) on both copies
        for obs, sess, o in ((obs_a, a, oa), (obs_b, b, ob)):
            obs["again"] = ""
            if o == "spec":
                try:
                    with sess.cdb_rec.paused():
                        sess.searcher.get_specification(minimization_time_limit=0)
                    obs["again"] = "spec"
                except Exception as e:
                    obs["again"] = type(e).__name__
        events.append({"op": "pair", "a": obs_a, "b": obs_b})
        # ---- interruption consistency of the original
        handed = [e["ret"] for e in a.ev["queue"] if e["op"] in ("next", "dl_next") and e["ret"]["k"] in ("inf", "init", "exp")]
        with a.cdb_rec.paused():
            verified = [l for l in range(len(a.classdb.label_to_info)) if a.ruledb.is_verified(l)]
        events.append({"op": "interrupt", "handed": handed, "expanded": [p["p"] for p in a.packets], "verified": verified})
        events.append({"op": "slicing", "full": full_outcome, "resumed": oa})
        out["resume"] = {"tid": tid, "events": events, "sig": "flavour=%s" % fl}
        sh = a.q_rec.shape()
        out["queue"] = {"shape": [sh[0], sh[1], list(sh[2])], "trace": {"tid": tid, "events": a.ev["queue"]}}
        if oa == "spec":
            out["spec"] = a.spec_trace(tid, a.spec_events(sa, max_n=5))
        out["k"] = k_real
    finally:
        a.close()
        if b is not None:
            b.close()
    return out


def run(tier: str, seed: int) -> int:
    run_ = Run("C17", tier, seed, level="fault_enumeration")
    rnd = random.Random(seed + 17)
    base = []
    pats = [("aa",), ("aba", "bb"), ("ab",), ("aa", "aab")] if tier == "quick" else [tuple(p) for p in sc.PATTERN_SETS_AB[:10]]
    packs = ["plain", "syminf", "factory", "pv2", "iter", "two"] if tier == "quick" else ["plain", "sym", "syminf", "merge", "factory", "pfactory", "twosets", "pv2", "iter", "two", "split"]
    for p in pats:
        for pk in packs:
            for fl in ("default", "forget", "forest"):
                if fl == "forest" and sc.PACKS[pk].get("iterative"):
                    continue
                st = "s2m" if sc.PACKS[pk].get("merge") else "s0"
                base.append(("", p, "ab", st, pk, fl, "one", True))
    totals = pmap(total_packets, base, procs=16, chunk=1)
    jobs = []
    for cfg, (K, full_outcome) in zip(base, totals):
        ks = list(range(0, K + 1))
        if tier == "quick" and len(ks) > 5:
            ks = sorted(set([0, 1, K] + rnd.sample(ks, 2)))
        for k in ks:
            for cont in CONT:
                if tier == "quick" and rnd.random() < 0.5:
                    continue
                jobs.append((cfg, k, cont, full_outcome))
    res = [r for r in pmap(fork_job, jobs, procs=16, chunk=2) if not r["skipped"]]
    resume = [r["resume"] for r in res]
    for r in res:
        run_.events += len(r["resume"]["events"])
        if r.get("k", 0) >= 1 and len(r["resume"]["events"]) > 1 and len(r["resume"]["events"][1]["a"]["packets"]) >= 1:
            run_.nt(r["tid"])
    run_.evaluations = len(res)
    run_.sample({"tid": resume[len(resume) // 2]["tid"], "fork": resume[len(resume) // 2]["events"][0],
                 "pair_a_head": {k: (v[:4] if isinstance(v, list) else v) for k, v in resume[len(resume) // 2]["events"][1]["a"].items()}})
    v = tlc.validate_traces(run_.wd, "Trace_Resume", resume, jvms=12, tag="resume", timeout=3000)
    run_.add_verdicts(v, "Trace_Resume (fork equality, paired observations, interruption consistency)")
    run_.rejects(v, {t["tid"]: t for t in resume}, lambda tr, r: tr["sig"])
    # queue traffic across the interruption
    by = {}
    for r in res:
        if not r["queue"]:
            continue
        sh = r["queue"]["shape"]
        by.setdefault((sh[0], sh[1], tuple(sh[2])), []).append(r["queue"]["trace"])
    for shape, traces in by.items():
        c16.judge(run_, traces, shape, "interrupted")
    run_.violations = [dict(v_, signature=v_["signature"]) for v_ in run_.violations]
    # the specification finally returned
    specs = [r["spec"] for r in res if r["spec"]]
    if specs:
        vs = tlc.validate_traces(run_.wd, "Trace_Spec", specs, jvms=12, tag="final-spec", timeout=3000)
        run_.add_verdicts(vs, "Trace_Spec (specification returned after resumption: C01/C02 clauses)")
        run_.rejects(vs, {t["tid"]: t for t in specs}, lambda tr, r: "final-spec")
    # model level: every time-slicing of the search loop (Search.tla) on universes extracted from real searches; the loop
    # traces of those searches are validated step by step against the same specification
    from .. import searchmodel

    jobs, rejected, nmc = searchmodel.campaign(run_, tier, seed, want_mc=True, focus="resume")
    for job, r in rejected:
        run_.violation(r["clause"], "search-loop/" + job["sig"], {"reject": r, "trace": {"tid": job["tid"], "events": job["events"]}, "universe": job["universe"]})
    run_.extra["universes_model_checked_for_all_slicings"] = nmc
    run_.rule = ("for each (start class, pack, flavour): every prefix length k of the expansion sequence (seeded subset in the quick "
                 "tier) x continuation in single-packet slices / one slice; non-trivial = fork after >= 1 packet with work left")
    run_.extra["forks"] = len(res)
    run_.extra["specs_after_resumption"] = len(specs)
    run_.assumptions = ["identity of the returned rules is not demanded across a pickle (set iteration order may pick another "
                        "equivalence path); their validity and counts are", "cached emptiness is read from ClassDB.empty_list"]
    return run_.finish()


def selftest(seed: int) -> int:
    run_ = Run("C17", "quick", seed)
    cfg = ("", ("aa",), "ab", "s0", "plain", "default", "one", True)
    good = fork_job((cfg, 2, "single", "spec"))["resume"]
    bad1 = json.loads(json.dumps(good)); bad1["tid"] = "corrupt"
    bad1["events"][1]["b"]["ver"][0] ^= 1
    bad2 = json.loads(json.dumps(good)); bad2["tid"] = "dropped"
    del bad2["events"][2]["handed"][1]
    good["tid"] = "good"
    v = tlc.validate_traces(run_.wd, "Trace_Resume", [good, bad1, bad2], jvms=1)
    rejected = {r["tid"]: r["clause"] for r in v.rejects}
    tlc.clean_workdir(run_.wd)
    ok = set(rejected) == {"corrupt", "dropped"}
    print("selftest C17: rejected=%s -> %s" % (rejected, "OK" if ok else "FAILED"))
    return 0 if ok else 2


def replay(path: str, seed: int) -> int:
    d = json.load(open(path))
    tr, r = d["detail"].get("trace"), d["detail"].get("reject")
    if tr and r:
        print(d["clause"], tr["tid"], "event", r["event"], json.dumps(tr["events"][r["event"] - 1], indent=1)[:5000])
    return 1
