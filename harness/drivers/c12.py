"""C12 - a constructed bijection is a size-preserving bijection with a true inverse.
C13 - the parallel specification finder is total and its output is a matched pair.   (shared code)

C12: pairs of specifications from a pool (found by plain searches under each rule database, with and
without symmetry/inferral so that equivalence paths occur on one side only, over 2- and 3-letter
alphabets; pairs returned by the parallel finder; bijections reloaded from JSON).  For every
constructed bijection and every n <= 6 the complete map table and inverse table are recorded and
judged by TLC (Iso.tla over WordUniverse.tla: into, one-to-one, onto, both inverse laws); the
isomorphism test is recorded in both directions (symmetric) and on each specification with itself
(reflexive when all verified classes are atoms).
C13: every ordered pair of searchers from a list of start classes x packs (plain, symmetry,
inferral, both) x both finder variants: the outcome (nothing / pair / exception), validity of both
returned specifications (Trace_Spec: C01/C02 clauses), isomorphism and constructibility of the
bijection.
"""
import itertools
import json
import random

from .. import tlc
from ..common import Run, pmap
from ..specdesc import spec_rules_desc, terms_list
from . import c02

PACKS = {"plain": dict(), "sym": dict(sym=True), "inf": dict(inf=True), "syminf": dict(sym=True, inf=True),
         "symcycle": dict(sym=True, cycle=True),
         # two competing expansion strategies: the finder's second phase has alternatives to backtrack over
         "two": dict(expand2=True), "twosym": dict(expand2=True, sym=True),
         "twocycle": dict(expand2=True, cycle=True), "twosymcycle": dict(expand2=True, cycle=True, sym=True),
         # a letter swap whose one-child rules are declared non-equivalences: classes share labels without being equivalent
         "symmarked": dict(sym_marked=True),
         # the inferral step from the redundant start class to the minimal class declared a non-equivalence
         "infmarked": dict(inf=True, inf_marked=True), "infmarkedsym": dict(inf=True, inf_marked=True, sym=True)}
ABC3 = [(("ab", "cc"), "abc"), (("bc", "aa"), "abc"), (("ca", "bb"), "abc"), (("ba", "cc"), "abc"), (("ac", "bb"), "abc"),
        (("cc",), "abc"), (("aa",), "abc"), (("bb",), "abc"), (("b",), "abc"), (("a",), "abc")]
STARTS = [(("aa",), "ab"), (("bb",), "ab"), (("ab",), "ab"), (("ba",), "ab"), (("aba",), "ab"), (("bab",), "ab"), (("aa", "bb"), "ab"),
          (("aab",), "ab"), (("abb",), "ab"), (("a", "bb"), "ab"), (("aba", "bb"), "ab"), (("bab", "aa"), "ab"), (("aaa",), "ab"), (("bbb",), "ab"),
          (("aa", "b"), "abc"), (("cc", "a"), "abc"), (("ab", "ba"), "ab"), (("aab", "bba"), "ab"), (("abab",), "ab"), (("baba",), "ab")]


# pattern sets over three letters, each paired with its image under the a<->b swap, searched with two competing
# expansion strategies (with / without the swap symmetry): the finder's second search meets labels that were already
# given a rule while paired with another label (defect D12 was found here)
TWO3 = [("aca", "bca"), ("aab", "bab"), ("aba", "cbc"), ("aca", "cac"), ("bcb", "ccb"), ("abc", "bba"), ("ab",), ("aca",), ("ac", "bb"), ("cab", "cc")]


# configurations in which the second search backtracks over a pair one of whose labels was already assigned (found by
# random sweeps: D13 and a seeded bookkeeping slip show only here)
TWO3_FORCED = [((("aab", "bca", "cba"), "twosymcycle"), (("acb", "bba", "cab"), "twosymcycle")),
               ((("bcc", "cba"), "twosym"), (("acc", "cab"), "twosym")),
               ((("aba", "bcc", "cac"), "two"), (("acc", "bab", "cbc"), "twosymcycle"))]


# specifications that are isomorphic only up to unrolling a recursion: one class of the first is matched with two (three)
# classes of the second (a^n | b^n against alternating words; the same over three letters with cyclic succession)
UNROLL = [((("ab", "ba"), "ab"), (("aa", "bb"), "ab")),
          ((("ab", "ac", "ba", "bc", "ca", "cb"), "abc"), (("aa", "bb", "cc", "ac", "ba", "cb"), "abc")),
          ((("ab", "ba"), "ab", "a"), (("aa", "bb"), "ab", "b"))]


def unroll_pairs():
    out = []
    for a, b in UNROLL:
        for fl1, fl2 in (("default", "default"), ("forest", "default"), ("default", "forget")):
            out.append(((a, "plain", fl1), (b, "plain", fl2)))
            out.append(((b, "plain", fl1), (a, "plain", fl2)))
    return out


# the same with start classes that have a prefix (not the representatives of their equivalence classes): the second search
# backtracks at a pair of which exactly one label already has a rule
TWO3_FORCED_PREFIXED = [((("aab", "bca"), "twosym", "c"), (("acb", "bba"), "two", "c")),
                        ((("aaa", "bba", "cbb"), "twosym", "c"), (("aab", "bbb", "caa"), "twocycle", "c")),
                        ((("abc", "bcc", "ccc"), "twocycle", "c"), (("acc", "bac", "ccc"), "twosym", "c"))]


def two3_pairs():
    from ..universes.words import swap_word

    out = [(((P, "abc"), pk1), ((Q, "abc"), pk2)) for (P, pk1), (Q, pk2) in TWO3_FORCED]
    out += [(((P, "abc", pre1), pk1), ((Q, "abc", pre2), pk2)) for (P, pk1, pre1), (Q, pk2, pre2) in TWO3_FORCED_PREFIXED]
    for P in TWO3:
        Q = tuple(sorted(swap_word(p) for p in P))
        for pk1, pk2 in (("twosym", "two"), ("two", "twosym"), ("two", "two"), ("twosym", "twosym")):
            out.append((((P, "abc"), pk1), ((Q, "abc"), pk2)))
    return out


def mk_searcher(start_cfg, pk, flavour="default"):
    from ..universes import words as W
    from comb_spec_searcher import CombinatorialSpecificationSearcher
    from comb_spec_searcher.rule_db import RuleDBForest, RuleDBForgetStrategy

    pats, alph = start_cfg[:2]
    prefix = start_cfg[2] if len(start_cfg) > 2 else ""
    pats = list(pats) + ([pats[0] + pats[0][-1]] if PACKS[pk].get("inf") and pats else [])
    start = W.WC(prefix, pats, alph)
    db = {"default": None, "forget": RuleDBForgetStrategy(), "forest": RuleDBForest()}[flavour]
    return start, W.make_pack(**PACKS[pk]), CombinatorialSpecificationSearcher(start, W.make_pack(**PACKS[pk]), ruledb=db)


def wi(c, w):
    idx = {a: i + 1 for i, a in enumerate(c.alphabet)}
    return [idx[x] for x in w]


def bij_events(b, c1, c2, n1, n2, max_n=6):
    events = []

    def has_reverse(spec):
        from comb_spec_searcher.strategies.rule import EquivalencePathRule, EquivalenceRule, ReverseRule

        def rev(r):
            return isinstance(r, ReverseRule) or (isinstance(r, EquivalenceRule) and isinstance(r.original_rule, ReverseRule)) \
                or (isinstance(r, EquivalencePathRule) and any(rev(x) for x in r.rules))

        return any(rev(r) for r in spec.rules_dict.values())

    # the library's documented refusal: a reverse rule (other than an equivalence) has no forward map, so a specification
    # containing one cannot be parsed with; such a bijection is not mappable and its tables are not judged
    unsupported = has_reverse(b.domain) or has_reverse(b.codomain)
    for n in range(max_n + 1):
        fwd, inv, failed = [], [], ""
        for w in c1.objects_of_size(n):
            try:
                fwd.append([wi(c1, w), wi(c2, b.map(w))])
            except NotImplementedError:
                if unsupported:
                    return []
                failed = "map:NotImplementedError"
                fwd.append([wi(c1, w), [-1]])
            except Exception as e:
                failed = "map:" + type(e).__name__
                fwd.append([wi(c1, w), [-1]])
        for v in c2.objects_of_size(n):
            try:
                inv.append([wi(c2, v), wi(c1, b.inverse_map(v))])
            except NotImplementedError:
                if unsupported:
                    return []
                failed = failed or "inverse:NotImplementedError"
                inv.append([wi(c2, v), [-1]])
            except Exception as e:
                failed = failed or "inverse:" + type(e).__name__
                inv.append([wi(c2, v), [-1]])
        events.append({"op": "bij", "c1": n1, "c2": n2, "n": n, "fwd": fwd, "inv": inv, "failed": failed})
    return events


def tf(f):
    try:
        return "T" if f() else "F"
    except Exception as e:
        return type(e).__name__


def atoms_only(spec):
    from comb_spec_searcher.strategies.rule import VerificationRule

    return all(r.comb_class.is_atom() for r in spec.rules_dict.values() if isinstance(r, VerificationRule))


def bisim_desc(spec):
    """class name -> node of Bisim.tla, the empty classes, the root name; None for specifications with parameters."""
    from comb_spec_searcher.strategies.rule import Rule

    names = {}

    def nm(c):
        return names.setdefault(c, "n%d" % len(names))

    nodes, empties = {}, set()
    for c, r in spec.rules_dict.items():
        if c.extra_parameters:
            return None
        kids = list(r.children)
        for k in kids:
            if k.is_empty():
                empties.add(nm(k))
        atom = bool(not kids and c.is_atom() and not c.is_empty())
        sz = -1
        if atom:
            sz = int(next(c.objects_of_size(c.minimum_size_of_object())).size())
        nodes[nm(c)] = {"eq": bool(kids and r.is_equivalence()), "k": type(r.constructor).__name__ if isinstance(r, Rule) else "V",
                        "ch": [nm(k) for k in kids], "atom": atom, "sz": sz}
    # children without a rule are empty classes (their rules are created lazily): leaves that are never atoms
    for n in list(nodes.values()):
        for k in n["ch"]:
            if k not in nodes:
                nodes[k] = {"eq": False, "k": "V", "ch": [], "atom": False, "sz": -1}
    return nodes, sorted(empties), nm(spec.root)


def bisim_event(sp1, sp2, claim, ans=""):
    d1, d2 = bisim_desc(sp1), bisim_desc(sp2)
    if d1 is None or d2 is None or len(d1[0]) * len(d2[0]) > 1600:
        return None
    return {"op": "bisim", "A": d1[0], "EA": d1[1], "ra": d1[2], "B": d2[0], "EB": d2[1], "rb": d2[2], "claim": claim, "ans": ans}


def pair_job(args):
    """C12 worker: two plain searches -> isomorphism test both ways, reflexivity, bijection tables, JSON reload."""
    (s1cfg, pk1, fl1), (s2cfg, pk2, fl2) = args
    from comb_spec_searcher.isomorphism import Bijection, Isomorphism

    c1, _, se1 = mk_searcher(s1cfg, pk1, fl1)
    c2, _, se2 = mk_searcher(s2cfg, pk2, fl2)
    if c1.is_empty() or c2.is_empty():
        return None
    tid = "%s/%s/%s~%s/%s/%s" % (",".join(s1cfg[0]) + ":" + ":".join(s1cfg[1:]), pk1, fl1, ",".join(s2cfg[0]) + ":" + ":".join(s2cfg[1:]), pk2, fl2)
    from ..session import scripted_time
    try:
        with scripted_time():
            sp1, sp2 = se1.auto_search(), se2.auto_search()
    except Exception as e:
        return None
    events = [{"op": "check", "ab": tf(lambda: Isomorphism.check(sp1, sp2)), "ba": tf(lambda: Isomorphism.check(sp2, sp1))},
              {"op": "reflexive", "atoms_only": atoms_only(sp1), "res": tf(lambda: Isomorphism.check(sp1, sp1))}]
    be = bisim_event(sp1, sp2, "check", events[0]["ab"])
    if be is not None:
        events.append(be)
    try:
        b = Bijection.construct(sp1, sp2)
    except Exception as e:
        b = None
        events.append({"op": "finder", "kind": "construct:" + type(e).__name__, "iso": "F", "bijection": False, "has_bisim": False})
    nb = 0
    if b is not None:
        nb = 1
        bev = bij_events(b, c1, c2, "A", "B")
        events += bev
        if not bev:  # not mappable (a reverse rule in one of the specifications): nothing to compare after a reload either
            return {"tid": tid, "classes": {"A": c1.desc(), "B": c2.desc()}, "events": events, "nbij": 0, "unsupported": True}
        try:
            b2 = Bijection.from_dict(json.loads(json.dumps(b.to_jsonable())))
            same_f = all(b2.map(w) == b.map(w) for n in range(6) for w in c1.objects_of_size(n))
            same_i = all(b2.inverse_map(v) == b.inverse_map(v) for n in range(6) for v in c2.objects_of_size(n))
            events.append({"op": "reload", "same_fwd": bool(same_f), "same_inv": bool(same_i)})
        except Exception as e:
            events.append({"op": "reload", "same_fwd": False, "same_inv": False, "error": type(e).__name__})
    return {"tid": tid, "classes": {"A": c1.desc(), "B": c2.desc()}, "events": events, "nbij": nb}


def finder_job(args):
    """C13 worker: the parallel finder on a pair of fresh searchers."""
    (s1cfg, pk1), (s2cfg, pk2), variant = args
    from ..instrument import Namer
    from comb_spec_searcher.bijection import EqPathParallelSpecFinder, ParallelSpecFinder
    from comb_spec_searcher.isomorphism import Bijection, Isomorphism

    c1, pack1, se1 = mk_searcher(s1cfg, pk1)
    c2, pack2, se2 = mk_searcher(s2cfg, pk2)
    tid = "%s/%s~%s/%s/%s" % (",".join(s1cfg[0]), pk1, ",".join(s2cfg[0]), pk2, variant)
    Finder = {"plain": ParallelSpecFinder, "eqpath": EqPathParallelSpecFinder}[variant]
    ev = {"op": "finder", "kind": "none", "iso": "F", "bijection": False, "has_bisim": False}
    spec_traces = []
    events = [ev]
    from ..session import scripted_time
    try:
        with scripted_time():
            res = Finder(se1, se2).find()
    except Exception as e:
        ev["kind"] = type(e).__name__ + ":" + str(e)[:120].replace("\n", " ")
        res = None
    if res is not None:
        sp1, sp2 = res
        ev["kind"] = "pair"
        ev["iso"] = tf(lambda: Isomorphism.check(sp1, sp2))
        try:
            b = Bijection.construct(sp1, sp2)
        except Exception as e:
            b = None
        ev["bijection"] = b is not None
        be = bisim_event(sp1, sp2, "finder")
        ev["has_bisim"] = be is not None
        if be is not None:
            events.append(be)
        if b is not None:
            events += bij_events(b, c1, c2, "A", "B", max_n=5)
        for side, (spec, cls, pack) in enumerate(((sp1, c1, pack1), (sp2, c2, pack2))):
            namer = Namer("c")
            root = namer(spec.root)
            sev = [{"op": "spec", "stage": "final", "root": root, "rules": spec_rules_desc(list(spec.rules_dict.values()), namer, pack)}]
            sev[0]["root_is_start"] = (spec.root == cls)
            for n in range(6):
                try:
                    sev.append({"op": "terms", "c": namer(cls), "n": n, "terms": terms_list(spec.get_terms(n))})
                except Exception as e:
                    sev.append({"op": "terms", "c": namer(cls), "n": n, "terms": [[[-7], 1]], "error": type(e).__name__})
            spec_traces.append({"tid": tid + "#%d" % side, "classes": {n: c.desc() for c, n in namer.names.items()},
                                "te": [n for c, n in namer.names.items() if c.is_empty()], "pack": [repr(s) for s in pack], "events": sev})
    return {"tid": tid, "classes": {"A": c1.desc(), "B": c2.desc()}, "events": events, "specs": spec_traces, "kind": ev["kind"],
            "sig": "variant=%s" % variant}


# ---------------------------------------------------------------------------------------
# the tree universe: TLC chooses the specifications

def tree_systems(run: Run, tier: str, seed: int):
    """Every productive system with two internal classes (thorough: also a random part of those with three), exported by TLC."""
    out = []
    for ni, sample, label in ((2, 0, "2 internal classes, all"),) + (((3, 14, "3 internal classes, nodes from random subsets of 14"),) if tier == "thorough" else
                                                                      ((3, 8, "3 internal classes, nodes from random subsets of 8"),)):
        cfg = tlc.read_spec("MC_TreeSystems.cfg").replace("CONSTANT NI = 2", "CONSTANT NI = %d" % ni).replace("CONSTANT Sample = 0", "CONSTANT Sample = %d" % sample)
        wd = run.wd + "/trees%d" % ni
        import os
        os.makedirs(wd, exist_ok=True)
        tlc.write_module(wd, "MC_TreeSystems", tlc.read_spec("MC_TreeSystems.tla"), cfg)
        r = tlc.require_ok(tlc.run_tlc(wd, "MC_TreeSystems", workers=1, timeout=3000, seed=seed + 5), "MC_TreeSystems " + label)
        run.add_tlc(r, "MC_TreeSystems: productive systems exported, " + label)
        got = [json.loads(tlc.parse_tla_value(ln)[1]) for ln in r.printed if ln.startswith('<<"H"')]
        if r.out.count('<<"H"') != len(got):
            raise tlc.MachineryError("interleaved PrintT output in MC_TreeSystems")
        out += got
    return out


def tree_pair_job(args):
    """Two TLC-chosen systems -> the real specifications -> isomorphism test both ways, reflexivity, bijection tables."""
    tid, dA, dB, max_n = args
    from ..universes import trees as T
    from comb_spec_searcher.isomorphism import Bijection, Isomorphism

    sa = tuple((n["k"], tuple(n["ch"]), n["sz"]) for n in dA["sys"])
    sb = tuple((n["k"], tuple(n["ch"]), n["sz"]) for n in dB["sys"])
    events = [{"op": "counts", "side": "A", "got": [len(T.objects(sa, 1, n)) for n in range(max_n + 1)]},
              {"op": "counts", "side": "B", "got": [len(T.objects(sb, 1, n)) for n in range(max_n + 1)]}]
    try:
        sp1, sp2 = T.specification(sa, 1, "A"), T.specification(sb, 1, "B")
    except Exception as e:
        raise tlc.MachineryError("the library refused a well-formed tree system %r / %r: %r" % (sa, sb, e))
    ev = {"op": "check", "ab": tf(lambda: Isomorphism.check(sp1, sp2)), "ba": tf(lambda: Isomorphism.check(sp2, sp1))}
    events.append(ev)
    events.append({"op": "reflexive", "atoms_only": True, "res": tf(lambda: Isomorphism.check(sp1, sp1))})
    events.append({"op": "bisim", "ans": ev["ab"]})
    nb = 0
    try:
        b = Bijection.construct(sp1, sp2)
    except Exception as e:
        b = None
        events.append({"op": "check", "ab": "construct:" + type(e).__name__, "ba": ev["ba"]})
    if b is not None:
        nb = 1
        for n in range(max_n + 1):
            fwd, inv, failed = [], [], ""
            for o in T.objects(sa, 1, n):
                try:
                    fwd.append([T.enc(o), T.enc(b.map(o))])
                except Exception as e:
                    failed = failed or "map:" + type(e).__name__
                    fwd.append([T.enc(o), ["x", 0, 0, []]])
            for o in T.objects(sb, 1, n):
                try:
                    inv.append([T.enc(o), T.enc(b.inverse_map(o))])
                except Exception as e:
                    failed = failed or "inverse:" + type(e).__name__
                    inv.append([T.enc(o), ["x", 0, 0, []]])
            events.append({"op": "tbij", "n": n, "fwd": fwd, "inv": inv, "failed": failed})
    return {"tid": tid, "A": dA["sys"], "B": dB["sys"], "events": events, "nbij": nb, "sig": "tree-universe"}


def tree_gen_job(args):
    """Counting and generation from the real specification of one TLC-chosen system."""
    tid, d, max_n, what = args
    from ..universes import trees as T

    sa = tuple((n["k"], tuple(n["ch"]), n["sz"]) for n in d["sys"])
    sp = T.specification(sa, 1, "A")
    events = []
    for n in range(max_n + 1):
        if "count" in what:
            try:
                events.append({"op": "tcount", "n": n, "cnt": int(sp.count_objects_of_size(n)), "error": ""})
            except Exception as e:
                events.append({"op": "tcount", "n": n, "cnt": -1, "error": type(e).__name__})
        if "gen" in what:
            try:
                events.append({"op": "tgen", "n": n, "objs": [T.enc(o) for o in sp.generate_objects_of_size(n)], "error": ""})
            except Exception as e:
                events.append({"op": "tgen", "n": n, "objs": [], "error": type(e).__name__})
    return {"tid": tid, "A": d["sys"], "events": events, "sig": "tree-universe"}


def tree_gen_traces(run: Run, tier: str, seed: int, what):
    """TLC-chosen specifications through counting / generation, judged against TreeUniverse.tla."""
    systems = tree_systems(run, tier, seed)
    res = pmap(tree_gen_job, [("g%d" % i, d, 5 if len(d["sys"]) <= 4 else 4, what) for i, d in enumerate(systems)], procs=16, chunk=16)
    for r in res:
        run.events += len(r["events"])
        run.nt("tree:" + r["tid"])
    run.extra["tree_universe_systems"] = len(systems)
    v = tlc.validate_traces(run.wd, "Trace_TreeGen", res, jvms=12, tag="treegen", timeout=3000, heap="4g")
    run.add_verdicts(v, "Trace_TreeGen (TLC-chosen specifications: %s)" % "/".join(what))
    run.rejects(v, {t["tid"]: t for t in res}, lambda tr, r: "tree-universe/" + tr["events"][r["event"] - 1]["op"])
    return v


def relabel(d, rnd):
    """The same system with its internal classes renamed by a permutation and the children of every union / product
    permuted: an isomorphic specification (when the root goes to the root)."""
    sysm = d["sys"]
    ni = len(sysm) - 2
    perm = list(range(1, ni + 1))
    rest = perm[1:]
    rnd.shuffle(rest)
    perm = [1] + rest  # the root stays the root
    m = {old: new for old, new in zip(range(1, ni + 1), perm)}
    m.update({ni + 1: ni + 1, ni + 2: ni + 2})
    out = [None] * len(sysm)
    for old, node in enumerate(sysm, start=1):
        ch = [m[c] for c in node["ch"]]
        rnd.shuffle(ch)
        out[m[old] - 1] = {"k": node["k"], "ch": ch, "sz": node["sz"]}
    return {"sys": out, "counts": []}


def tree_traces(run: Run, tier: str, seed: int):
    systems = tree_systems(run, tier, seed)
    rnd = random.Random(seed + 21)
    by_n = {}
    for d in systems:
        by_n.setdefault(len(d["sys"]), []).append(d)
    jobs = []
    max_n = 4
    k = 0
    for n, group in sorted(by_n.items()):
        # every system against itself and against a relabelled copy; then pairs
        for d in group:
            jobs.append(("t%d" % k, d, d, max_n)); k += 1
            jobs.append(("t%d" % k, d, relabel(d, rnd), max_n)); k += 1
        if tier == "thorough" and n == 4:
            pairs = [(a, b) for a in group for b in group]
        else:
            pairs = [(rnd.choice(group), rnd.choice(group)) for _ in range(2500 if tier == "quick" else 40000)]
        for a, b in pairs:
            jobs.append(("t%d" % k, a, b, max_n)); k += 1
    res = pmap(tree_pair_job, jobs, procs=16, chunk=64)
    run.extra["tree_universe_systems"] = len(systems)
    run.extra["tree_universe_pairs"] = len(res)
    run.extra["tree_universe_bijections"] = sum(r["nbij"] for r in res)
    for r in res:
        run.events += len(r["events"])
        if r["nbij"]:
            run.nt("tree:" + r["tid"])
    v = tlc.validate_traces(run.wd, "Trace_TreeIso", res, jvms=14, tag="trees", timeout=5000, heap="4g")
    run.add_verdicts(v, "Trace_TreeIso (TLC-chosen specifications: isomorphism test and bijection tables)")
    fixture = [r for r in v.rejects if r["clause"].startswith("FIXTURE")]
    if fixture:
        raise tlc.MachineryError("fixture validation failed: %r" % fixture[:3])
    run.rejects(v, {t["tid"]: t for t in res}, lambda tr, r: "tree-universe/" + tr["events"][r["event"] - 1]["op"])
    return v


def judge_iso(run: Run, traces, label):
    v = tlc.validate_traces(run.wd, "Trace_Iso", traces, jvms=14, tag=label, timeout=3000)
    run.add_verdicts(v, "Trace_Iso " + label)
    by = {t["tid"]: t for t in traces}
    fixture = [r for r in v.rejects if r["clause"].startswith("FIXTURE")]
    if fixture:
        raise tlc.MachineryError("fixture validation failed: %r" % fixture[:3])
    run.rejects(v, by, lambda tr, r: tr.get("sig", tr["events"][r["event"] - 1]["op"]))
    return v


def run(tier: str, seed: int, pid="C12") -> int:
    run_ = Run(pid, tier, seed)
    rnd = random.Random(seed + 12)
    if pid == "C12":
        pool = [(s, pk, fl) for s in STARTS[: (14 if tier == "quick" else 20)] for pk in PACKS if pk not in ("symcycle", "symmarked", "infmarked", "infmarkedsym") and not pk.startswith("two") for fl in ("default", "forget", "forest")]
        pairs = [(a, b) for a in pool for b in pool if a[0][1] == b[0][1] or True]
        rnd.shuffle(pairs)
        pairs = pairs[: (260 if tier == "quick" else 6000)]
        # make sure related pairs (mirror images, same class under different packs) are in
        mirrors = [((STARTS[i], pk1, fl1), (STARTS[j], pk2, fl2)) for i, j in ((0, 1), (2, 3), (4, 5), (7, 8), (11, 10), (12, 13), (18, 19), (0, 0), (6, 6), (14, 15))
                   for pk1 in ("plain", "syminf") for pk2 in ("plain", "inf") for fl1 in ("default", "forest") for fl2 in ("default", "forget")]
        # three-letter classes related by letter renamings: children of the root rule match by 3-cycles
        abc = [((a, pk1, "default"), (b, pk2, "default")) for a in ABC3 for b in ABC3 for pk1 in ("plain", "symcycle") for pk2 in ("plain",)]
        two3 = [((a[0], a[1], "default"), (b[0], b[1], "default")) for a, b in two3_pairs()[: (12 if tier == "quick" else 1000)]]
        # the pair on which D14 was found (a remembered match that relied on a pair which later failed to match), and random
        # pattern sets over three letters against their images under a letter renaming, all packs and rule databases
        two3.append((((("aca", "bcc"), "abc"), "sym", "forget"), ((("acc", "bcb"), "abc"), "plain", "default")))
        import itertools as it
        from ..universes.words import swap_word, cycle_word
        words = ["".join(w) for n in (1, 2, 3) for w in it.product("abc", repeat=n)]
        r3 = random.Random(seed + 14)
        for _ in range(160 if tier == "quick" else 3000):
            P = tuple(sorted(r3.sample(words, r3.choice((1, 2, 2, 3)))))
            Q = tuple(sorted(r3.choice((swap_word, cycle_word, lambda w: w))(p) for p in P))
            packs3 = ("two", "twosym", "twocycle", "sym", "plain", "symcycle")
            fls = ("default", "forest", "forget")
            two3.append((((P, "abc"), r3.choice(packs3), r3.choice(fls)), ((Q, "abc"), r3.choice(packs3), r3.choice(fls))))
        res = [r for r in pmap(pair_job, mirrors + abc + two3 + unroll_pairs() + pairs, procs=16, chunk=2) if r]
        seen, traces = set(), []
        for r in res:
            if r["tid"] in seen:
                continue
            seen.add(r["tid"])
            traces.append(r)
            run_.events += len(r["events"])
            if r["nbij"]:
                run_.nt(r["tid"])
        run_.extra["bijections_constructed"] = sum(r["nbij"] for r in traces)
        run_.evaluations = len(traces)
        ex = next(t for t in traces if t["nbij"])
        run_.sample({"tid": ex["tid"], "bij_n3": next(e for e in ex["events"] if e["op"] == "bij" and e["n"] == 3)})
        judge_iso(run_, traces, "pairs")
        tree_traces(run_, tier, seed)
        run_.rule = ("ordered pairs of specifications from a pool (start classes x {plain,sym,inf,syminf} x three rule databases), mirror "
                     "pairs forced in; non-trivial = a bijection was constructed (its tables for n <= 6 are judged)")
    else:
        # the lemma the independent isomorphism judge (Bisim.tla) rests on, and that its result is a bisimulation, reflexive and
        # symmetric: all pairs of systems with two internal classes (quick: nodes drawn from random subsets of 10)
        cfg = tlc.read_spec("MC_Bisim.cfg")
        if tier == "thorough":
            cfg = cfg.replace("CONSTANT Sample = 10", "CONSTANT Sample = 0")
        tlc.write_module(run_.wd, "MC_Bisim", tlc.read_spec("MC_Bisim.tla"), cfg)
        r = tlc.require_ok(tlc.run_tlc(run_.wd, "MC_Bisim", workers=8, timeout=5000, seed=seed + 7), "MC_Bisim")
        run_.add_tlc(r, "MC_Bisim: greedy pairing = search over all permutations; result is a bisimulation, reflexive, symmetric")
        if r.status == "violated":
            raise tlc.MachineryError("the lemma of Bisim.tla fails:\n" + r.out[-2000:])
        items = [(s, pk) for s in STARTS[: (12 if tier == "quick" else 20)] for pk in PACKS if pk not in ("symcycle", "symmarked", "infmarked", "infmarkedsym") and not pk.startswith("two")]
        pairs = [(a, b, v) for a in items for b in items for v in ("plain", "eqpath")]
        rnd.shuffle(pairs)
        pairs = pairs[: (420 if tier == "quick" else 6000)]
        forced = [((STARTS[i], pk1), (STARTS[j], pk2), v) for i, j in ((0, 1), (2, 3), (4, 5), (0, 0), (6, 6), (7, 8))
                  for pk1 in PACKS if not pk1.startswith("two") and "marked" not in pk1 for pk2 in PACKS if not pk2.startswith("two") and "marked" not in pk2 for v in ("plain", "eqpath")]
        abc = [((a, pk1), (b, pk2), v) for a in ABC3 for b in ABC3 for pk1 in ("plain", "symcycle") for pk2 in ("plain", "symcycle") for v in ("plain", "eqpath")]
        two3 = [(a, b, v) for a, b in two3_pairs() for v in ("plain", "eqpath")]
        # the equivalence-path finder with non-equivalent classes sharing labels on one side only (D19 was found there)
        for P in (("ab", "ba"), ("aa", "bb"), ("a",), ("aa", "ab", "bb"), ("aba", "bab")):
            for pk1, pk2 in (("symmarked", "sym"), ("sym", "symmarked"), ("symmarked", "symmarked")):
                two3.append((((P, "ab"), pk1), ((P, "ab"), pk2), "eqpath"))
        # ... and a start class joined to its representative by a non-equivalence on one side only: the path from the *start
        # class* (not from the representative) has to be compared
        for P in (("aa",), ("ab",), ("aa", "bb"), ("aba",)):
            for pk1, pk2 in (("infmarked", "plain"), ("plain", "infmarked"), ("infmarked", "inf"), ("infmarkedsym", "sym"), ("infmarked", "infmarked")):
                two3.append((((P, "ab"), pk1), ((P, "ab"), pk2), "eqpath"))
        # pairs whose universes have the same rule shapes everywhere and differ only in the *size* of an atom (both classes
        # have 3 words of every size >= 2): the atoms must be compared with their sizes
        for P, Q in ((("ab", "bba"), ("ab", "bbb")), (("ba", "aaa"), ("ba", "aab")), (("ab", "bbb"), ("ab", "bba")), (("ba", "aab"), ("ba", "aaa"))):
            for pk1, pk2 in (("plain", "plain"), ("sym", "plain"), ("inf", "inf")):
                for v in ("plain", "eqpath"):
                    two3.append((((P, "ab"), pk1), ((Q, "ab"), pk2), v))
        if tier == "thorough":
            import itertools as it
            from ..universes.words import swap_word, cycle_word
            words = ["".join(w) for n in (1, 2, 3) for w in it.product("abc", repeat=n)]
            r3 = random.Random(seed + 13)
            for _ in range(1500):
                P = tuple(sorted(r3.sample(words, r3.choice((1, 2, 2, 3)))))
                f = r3.choice((swap_word, cycle_word, lambda w: w))
                Q = tuple(sorted(f(p) for p in P))
                if any(p in "" for p in P):
                    continue
                pk1, pk2 = r3.choice(("two", "twosym", "twocycle", "twosymcycle", "sym", "plain")), r3.choice(("two", "twosym", "twocycle", "twosymcycle", "sym", "plain"))
                two3 += [(((P, "abc"), pk1), ((Q, "abc"), pk2), v) for v in ("plain", "eqpath")]
        res = pmap(finder_job, forced + abc + two3 + pairs, procs=16, chunk=2)
        seen, traces, specs = set(), [], []
        kinds = {}
        for r in res:
            if r["tid"] in seen:
                continue
            seen.add(r["tid"])
            traces.append(r)
            specs += r["specs"]
            kinds[r["kind"][:30]] = kinds.get(r["kind"][:30], 0) + 1
            run_.events += len(r["events"])
            if r["kind"] == "pair":
                run_.nt(r["tid"])
        run_.extra["finder_outcomes"] = kinds
        run_.evaluations = len(traces)
        run_.sample({"tid": traces[0]["tid"], "finder_event": traces[0]["events"][0]})
        judge_iso(run_, [{k: v for k, v in t.items() if k != "specs"} for t in traces], "finder")
        if specs:
            vs = tlc.validate_traces(run_.wd, "Trace_Spec", specs, jvms=14, tag="finder-specs", timeout=3000)
            run_.add_verdicts(vs, "Trace_Spec (both returned specifications: C01/C02 clauses)")
            run_.rejects(vs, {t["tid"]: t for t in specs}, lambda tr, r: "returned-spec")
        run_.rule = ("ordered pairs of searchers (start classes x {plain,sym,inf,syminf}) x {ParallelSpecFinder, EqPathParallelSpecFinder}, "
                     "mirror pairs forced in; non-trivial = the finder returned a pair (both specifications and the bijection are judged)")
    run_.assumptions = ["completeness of the isomorphism test / of the finder is not a property and is not checked",
                        "atom-only verification and the default rule database for the finder (its documented preconditions)"]
    return run_.finish()


def selftest(seed: int, pid="C12") -> int:
    run_ = Run(pid, "quick", seed)
    if pid == "C12":
        good = pair_job(((STARTS[0], "plain", "default"), (STARTS[1], "plain", "default")))
        bad1 = json.loads(json.dumps(good)); bad1["tid"] = "corrupt"
        e = next(e for e in bad1["events"] if e["op"] == "bij" and e["n"] == 3)
        e["fwd"][0][1] = e["fwd"][1][1]
    else:
        good = finder_job((( STARTS[0], "plain"), (STARTS[1], "plain"), "plain"))
        good = {k: v for k, v in good.items() if k != "specs"}
        bad1 = json.loads(json.dumps(good)); bad1["tid"] = "corrupt"
        bad1["events"][0]["kind"] = "AssertionError"
    good["tid"] = "good"
    extra = []
    if pid != "C12":
        # the independent isomorphism judge: the second specification's root rule exchanged for a product
        bad2 = json.loads(json.dumps(good)); bad2["tid"] = "swapped-rule"
        be = next(e for e in bad2["events"] if e["op"] == "bisim")
        root = be["B"][be["rb"]]
        node = root if not root["eq"] else be["B"][root["ch"][0]]
        node["k"] = "CartesianProduct" if node["k"] != "CartesianProduct" else "DisjointUnion"
        extra = [bad2]
    v = tlc.validate_traces(run_.wd, "Trace_Iso", [good, bad1] + extra, jvms=1)
    rejected = {x["tid"]: x["clause"] for x in v.rejects}
    tlc.clean_workdir(run_.wd)
    ok = set(rejected) == {"corrupt"} | {t["tid"] for t in extra}
    print("selftest %s: rejected=%s -> %s" % (pid, rejected, "OK" if ok else "FAILED"))
    return 0 if ok else 2


def replay(path: str, seed: int) -> int:
    d = json.load(open(path))
    tr, r = d["detail"].get("trace"), d["detail"].get("reject")
    if tr and r:
        print(d["clause"], tr["tid"], json.dumps(tr["events"][r["event"] - 1])[:3000])
    return 1
