"""C09 - every rule form counts its parent correctly from its children, with parameters.
C10 - declared shifts bound what a rule actually reads when counting.       (shared driver code)

For every non-empty class of the fixture list and every applicable strategy, the rule and every form
the library derives from it (reverse w.r.t. each child: complement / quotient; equivalence form;
reverse of the equivalence form; chains as equivalence paths, including one through a reverse rule)
computes its parent's terms for n = 0..6 from *recording providers* that hand out the children's
true terms.  Events: what the providers handed out (validated against WordUniverse.tla: fixture
check), what the form computed (C09: must equal the truth of the form's parent, all parameter
tuples; statistics merged onto one child statistic and statistics dropped by the child included),
and which (child, size) / own sizes were requested while computing each level (C10: within the
declared shifts).  MC_Counting.tla shows at design level that these read bounds are what makes a
productive rule set evaluable without circular waiting.  TLC judges every event.
"""
import json

from .. import tlc
from ..common import Run, pmap
from .. import rulelab


def jobs(tier, seed, what):
    out = []
    for c, s in rulelab.fixture_classes(tier, seed):
        out.append((((str(c.prefix), tuple(map(str, c.patterns)), tuple(c.alphabet), c.just_prefix, c.stats), type(s).__name__), tier, what))
    return out


def judge(run: Run, traces, label, pid):
    v = tlc.validate_traces(run.wd, "Trace_Count", traces, jvms=14, tag=label, timeout=3000)
    run.add_verdicts(v, "Trace_Count " + label)
    by = {t["tid"]: t for t in traces}
    fixture = [r for r in v.rejects if r["clause"].startswith("FIXTURE")]
    if fixture:
        raise tlc.MachineryError("fixture/provider validation failed (not a verdict about the library): %r" % fixture[:3])

    def sig(tr, r):
        e = tr["events"][r["event"] - 1]
        return "form=%s/strategy=%s" % (e.get("form", "?").split(":")[0].rstrip("0123456789"), tr["tid"].split("|")[-1])

    run.rejects(v, by, sig)
    return v


def run(tier: str, seed: int, pid="C09") -> int:
    run_ = Run(pid, tier, seed)
    if pid == "C10":
        cfg = tlc.read_spec("MC_Counting.cfg")
        if tier == "thorough":
            cfg = cfg.replace("NC = 2 MaxShift = 1 N = 2", "NC = 2 MaxShift = 2 N = 3")
        tlc.write_module(run_.wd, "MC_Counting", tlc.read_spec("MC_Counting.tla"), cfg)
        r = tlc.require_ok(tlc.run_tlc(run_.wd, "MC_Counting", workers=16, timeout=2400), "MC_Counting")
        run_.add_tlc(r, "MC_Counting: productive + reads within shifts => no circular wait")
        if r.status == "violated":
            run_.tlc_violation(r, "MC_Counting")
    res = pmap(rulelab.lab_job, jobs(tier, seed, ("count",)), procs=16, chunk=2)
    keep = ("formterms", "provided", "kept", "contract") if pid == "C09" else ("reads", "formterms-error")
    traces = []
    nforms = {}
    for r in res:
        ev = [e for e in r["events"] if e["op"] in keep]
        if not ev:
            continue
        traces.append({"tid": r["tid"], "classes": r["classes"], "events": ev})
        run_.events += len(ev)
        for f in r["forms"]:
            k = f.split(":")[0].rstrip("0123456789")
            nforms[k] = nforms.get(k, 0) + 1
            if k != "rule":
                run_.nt(r["tid"] + f)
    run_.evaluations = len(traces)
    t0 = next(t for t in traces if len(t["events"]) > 10)
    run_.sample({"tid": t0["tid"], "events": t0["events"][5:8]})
    judge(run_, traces, "forms", pid)
    run_.rule = ("fixture list = non-empty word classes (prefixes x pattern sets x statistics configs incl. merged and dropped "
                 "statistics) x applicable strategies; every derived form; n = 0..6 (5 over three letters); non-trivial = a derived "
                 "form (reverse / equivalence / reverse of equivalence / path)")
    run_.extra["events_judged"] = run_.events
    run_.extra["forms_exercised"] = nforms
    run_.assumptions = ["providers hand out the fixture classes' brute-force terms; TLC validates each of them against WordUniverse.tla "
                        "(a mismatch is a machinery failure)", "sympy performs the polynomial division of quotient rules; its result is judged"]
    return run_.finish()


def selftest(seed: int, pid="C09") -> int:
    run_ = Run(pid, "quick", seed)
    job = ((("a", ("aa",), ("a", "b"), False, (("k1", "a"),)), "Expand"), "quick", ("count",))
    r = rulelab.lab_job(job)
    keep = ("formterms",) if pid == "C09" else ("reads",)
    good = {"tid": "good", "classes": r["classes"], "events": [e for e in r["events"] if e["op"] in keep]}
    bad1 = json.loads(json.dumps(good)); bad1["tid"] = "corrupt"
    if pid == "C09":
        e = next(e for e in bad1["events"] if e["n"] == 3 and e["terms"])
        e["terms"][0][1] += 1
    else:
        e = next(e for e in bad1["events"] if e["reqs"])
        e["reqs"][0][1] = e["level"] + 5
    v = tlc.validate_traces(run_.wd, "Trace_Count", [good, bad1], jvms=1)
    rejected = {x["tid"]: x["clause"] for x in v.rejects}
    tlc.clean_workdir(run_.wd)
    ok = set(rejected) == {"corrupt"}
    print("selftest %s: rejected=%s -> %s" % (pid, rejected, "OK" if ok else "FAILED"))
    return 0 if ok else 2


def replay(path: str, seed: int) -> int:
    d = json.load(open(path))
    tr, r = d["detail"].get("trace"), d["detail"].get("reject")
    if tr and r:
        print(d["clause"], tr["tid"], json.dumps(tr["events"][r["event"] - 1])[:3000])
    return 1
