"""C03 - forest productivity detection equals the least fixed point, in any insertion order.

1. TLC checks Productivity.tla on every history of <= k rules over a small alphabet: Kleene =
   chaotic iteration, cap adequacy, monotonicity; exports every maximal history.
2. Every history (hence every permutation of every rule multiset of that size) is replayed into a
   real TableMethod with the reported function read after each insertion; seeded random histories
   (more classes, arity <= 3, repeated children, shifts -3..3) go deeper.
3. TLC judges each recorded trace with Trace_Table: observed vector = Lfp(rules so far).
4. Forest-database traffic of real searches (incl. reverse rules) is judged the same way.
"""
import json
import random

from .. import tlc
from ..common import Run, pmap
from ..instrument import TableRecorder


def replay_history(args):
    nc, hist = args
    from comb_spec_searcher.rule_db.forest import TableMethod
    from comb_spec_searcher.typing import ForestRuleKey, RuleBucket

    tm = TableMethod()
    rec = TableRecorder(tm, nc=nc, observe_each=True)
    try:
        for r in hist:
            try:
                tm.add_rule_key(ForestRuleKey(r["p"], tuple(r["ch"]), tuple(r["sh"]), RuleBucket.NORMAL))
            except Exception as e:  # an exception inside the table method: observation is recorded as malformed
                rec.events.append({"op": "observe", "p": 0, "ch": [], "sh": [], "fn": [], "bucket": type(e).__name__})
    finally:
        rec.close()
    for e in rec.events:
        e.pop("bucket", None)
    return rec.events


def model_histories(run: Run, nc, maxshift, maxarity, maxrules, label):
    wd = run.wd
    body = tlc.read_spec("MC_Productivity.tla")
    cfg = tlc.read_spec("MC_Productivity.cfg").replace(
        "NC = 2 MaxShift = 1 MaxArity = 2 MaxRules = 2",
        "NC = %d MaxShift = %d MaxArity = %d MaxRules = %d" % (nc, maxshift, maxarity, maxrules))
    tlc.write_module(wd, "MC_Productivity", body, cfg)
    r = tlc.require_ok(tlc.run_tlc(wd, "MC_Productivity", workers=16, timeout=3000, heap="12g"), "MC_Productivity " + label)
    run.add_tlc(r, "MC_Productivity %s" % label)
    if r.status == "violated":
        run.tlc_violation(r, "MC_Productivity/" + label)
    out = []
    for ln in r.printed:  # 16 workers: lines are expected whole; anything else is a machinery failure
        if ln.startswith('<<"H"'):
            out.append((nc, json.loads(tlc.parse_tla_value(ln)[1])))
    if r.out.count('<<"H"') != len(out):
        raise tlc.MachineryError("interleaved PrintT output: %d markers, %d parsed" % (r.out.count('<<"H"'), len(out)))
    return out


def random_histories(seed, n, nc, maxarity, maxshift, nrules):
    rnd = random.Random(seed)
    out = []
    for _ in range(n):
        k = rnd.randint(2, nc)
        h = []
        for _ in range(rnd.randint(1, nrules)):
            a = rnd.choice([0, 1, 1, 2, 2, 3][: maxarity + 3])
            a = min(a, maxarity)
            h.append({"p": rnd.randrange(k), "ch": [rnd.randrange(k) for _ in range(a)],
                      "sh": [rnd.randint(-maxshift, maxshift) for _ in range(a)]})
        out.append((k, h))
    return out


def judge(run: Run, traces, label):
    v = tlc.validate_traces(run.wd, "Trace_Table", traces, jvms=14, tag=label, timeout=3000)
    run.add_verdicts(v, "Trace_Table " + label)
    by = {t["tid"]: t for t in traces}
    run.rejects(v, by, lambda tr, r: tr.get("sig", label))
    return v


def run(tier: str, seed: int) -> int:
    run_ = Run("C03", tier, seed)
    # design level: the implementation-shaped table method (gap / hold-back bookkeeping, every release order)
    # refines the least fixed point
    for consts, label in ([("NC = 2 MaxShift = 1 MaxArity = 2 MaxRules = 2", "2 classes, <=2 insertions")] if tier == "quick" else
                          [("NC = 2 MaxShift = 1 MaxArity = 2 MaxRules = 3", "2 classes, <=3 insertions"),
                           ("NC = 3 MaxShift = 1 MaxArity = 1 MaxRules = 3", "3 classes, arity<=1, <=3 insertions"),
                           ("NC = 2 MaxShift = 2 MaxArity = 1 MaxRules = 3", "2 classes, arity<=1, shifts -2..2, <=3 insertions")]):
        cfg = tlc.read_spec("MC_TableMethod.cfg").replace("NC = 2 MaxShift = 1 MaxArity = 2 MaxRules = 2", consts)
        tlc.write_module(run_.wd, "MC_TableMethod", tlc.read_spec("MC_TableMethod.tla"), cfg)
        r = tlc.require_ok(tlc.run_tlc(run_.wd, "MC_TableMethod", workers=16, timeout=3000, heap="12g"), "MC_TableMethod " + label)
        run_.add_tlc(r, "MC_TableMethod refines Lfp: " + label)
        if r.status == "violated":
            run_.tlc_violation(r, "MC_TableMethod/" + label)
    hists = []
    if tier == "quick":
        hists += model_histories(run_, 2, 1, 2, 2, "2 classes, arity<=2, shifts -1..1, <=2 insertions")
        hists += model_histories(run_, 3, 1, 1, 3, "3 classes, arity<=1, shifts -1..1, <=3 insertions")
        hists += random_histories(seed + 11, 4000, 5, 3, 3, 9)
        hists += random_histories(seed + 13, 16000, 3, 2, 5, 6)
    else:
        hists += model_histories(run_, 2, 1, 2, 3, "2 classes, arity<=2, shifts -1..1, <=3 insertions")
        hists += model_histories(run_, 3, 1, 2, 2, "3 classes, arity<=2, shifts -1..1, <=2 insertions")
        hists += model_histories(run_, 2, 2, 1, 4, "2 classes, arity<=1, shifts -2..2, <=4 insertions")
        hists += random_histories(seed + 11, 60000, 7, 3, 3, 12)
        hists += random_histories(seed + 13, 200000, 3, 2, 5, 6)
    evs = pmap(replay_history, hists, procs=16, chunk=256)
    traces = []
    for i, ((nc, h), ev) in enumerate(zip(hists, evs)):
        traces.append({"tid": "h%d" % i, "nc": nc, "events": ev, "sig": "replayed"})
        run_.events += len(ev)
        last = [e for e in ev if e["op"] == "observe"][-1]["fn"]
        if -1 in last and any(x for r in h for x in r["sh"] if x < 0) or (-1 in last and len(h) >= 3):
            run_.nt(json.dumps(h))
    run_.evaluations = len(traces)
    run_.sample({"nc": traces[0]["nc"], "trace": traces[0]["events"]})
    run_.sample({"nc": traces[-1]["nc"], "trace": traces[-1]["events"]})
    judge(run_, traces, "replayed")
    try:
        from . import search_campaign
    except ImportError:
        search_campaign = None
    if search_campaign is not None:
        straces = search_campaign.table_traces(tier, seed)
        for t in straces:
            run_.nt("search:" + t["tid"])
        if straces:
            run_.sample({"search_trace": straces[0]["tid"], "n_events": len(straces[0]["events"])})
            judge(run_, straces, "search")
    run_.rule = ("every insertion history (all orders) of rule multisets over the small alphabets listed in tlc_runs, replayed into "
                 "real TableMethod objects with the function read after every insertion, + seeded random histories (<=7 classes, "
                 "arity<=3, repeated children, shifts -3..3, <=12 rules); non-trivial = some class pumps and a negative shift "
                 "occurs, or >=3 rules; plus forest traffic of real searches")
    run_.extra["events_judged"] = run_.events
    run_.assumptions = ["cap adequacy (values >= K mean infinity) is itself model-checked (K vs 2K) within the same bounds"]
    return run_.finish()


def selftest(seed: int) -> int:
    run_ = Run("C03", "quick", seed)
    h = [{"p": 0, "ch": [], "sh": []}, {"p": 1, "ch": [0, 1], "sh": [0, 1]}]
    good = replay_history((2, h))
    bad1 = json.loads(json.dumps(good))
    bad1[-1]["fn"][1] = 3
    bad2 = good[2:]
    traces = [{"tid": "good", "nc": 2, "events": good}, {"tid": "corrupt", "nc": 2, "events": bad1},
              {"tid": "dropped", "nc": 2, "events": bad2}]
    v = tlc.validate_traces(run_.wd, "Trace_Table", traces, jvms=1)
    rejected = {r["tid"]: r["clause"] for r in v.rejects}
    tlc.clean_workdir(run_.wd)
    ok = set(rejected) == {"corrupt", "dropped"}
    print("selftest C03: rejected=%s -> %s" % (rejected, "OK" if ok else "FAILED"))
    return 0 if ok else 2


def replay(path: str, seed: int) -> int:
    d = json.load(open(path))
    print(json.dumps(d, indent=1)[:6000])
    return 1
