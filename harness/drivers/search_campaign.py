"""The search campaign: real searches over the word universe W, every rule-database flavour, many
packs and time-slicings, recorded by harness/session.py.  Each check takes from it the traces of
the machine it is about (code -> spec direction)."""
import itertools
import random
from typing import Dict, List

from ..common import pmap

PATTERN_SETS_AB = [
    ["aa"], ["abba"], ["ab"], ["aaa"], ["aba"], ["aa", "bb"], ["aa", "aab"], ["aba", "bb"], ["ab", "ba"], ["aab", "bba"],
    ["a", "aaa"], ["abb", "bab"], ["aaa", "aba", "bb"], ["b"], ["aabb"], ["abab"],
]
PATTERN_SETS_ABC = [["aa", "bc"], ["abc"], ["ab", "bc", "ca"], ["cc", "ac"]]

PACKS = {
    "plain": dict(),
    "sym": dict(sym=True),
    "inf": dict(inf=True),
    "syminf": dict(sym=True, inf=True),
    "merge": dict(inf=True, merge=True),
    "factory": dict(factory=True),
    "pfactory": dict(parent_factory=True),
    "twosets": dict(two_sets=True),
    "noinit": dict(two_sets=True, no_initial=True),
    "iter": dict(iterative=True),
    "itersyminf": dict(iterative=True, sym=True, inf=True),
    "pv2": dict(prefix_verified=2),
    "needrev": dict(parent_factory=True, expand=False, empty_prefix_verified=True),
    "split": dict(split=True),
    "lazy": dict(lazy=True),
    "trim": dict(trim=True),
    "trimsym": dict(trim=True, sym=True),
    "trimonly": dict(trimonly=True),
    "trimrename": dict(trimrename=True),
    "hidden": dict(hidden=True),
    "pfactory2": dict(pfactory2=True),
    "noinf": dict(noinf=True),
    "rename": dict(rename=True),
    "mono": dict(mono=True),
    "fac2": dict(fac2=True),
    "symcycle": dict(sym=True, cycle=True),
    "oneway": dict(oneway=True, inf=True),
    "onewaysym": dict(oneway=True, inf=True, sym=True),
    # the (redundant) start class is only the child of a one-way single-child rule: derivable only as the reverse of that rule
    "redpar": dict(redpar=True),
    # two competing expansion strategies for every class
    "two": dict(expand2=True),
    # a factory that also yields ready rules of the children of the class it expands (rules of unrelated classes)
    "lookahead": dict(lookahead=True),
    # the same (parent, child) key once from a one-way and once from a two-way strategy, in both orders
    "ow2a": dict(ow2="a"),
    "ow2b": dict(ow2="b"),
    # a strategy with a constructor of its own whose backward map has two preimages (only where asked for: OPT_IN)
    "fold": dict(fold=True),
    # an involutive equivalence (letter swap) as an *expansion* strategy: the same two-way rule arrives in both directions
    "swapexp": dict(swapexp=True),
    # a verification strategy that counts through a specification found with its own pack (the library's default get_terms)
    "pvpack": dict(prefix_verified_bypack=2),
}
OPT_IN = {"fold", "swapexp", "pvpack"}
# packs whose point is a statistics mechanism always run with statistics; the cycle symmetry needs three letters
PACK_STATS = {"fold": "s0", "trim": "s2", "trimsym": "s2", "rename": "s2", "mono": "s1", "trimonly": "s2", "trimrename": "s2", "hidden": "s1"}
PACK_EXTRA_PATTERNS = {"fold": [("aa", "bb"), ("ab", "ba"), ("aba", "bab"), ("aab", "bba")], "trim": [("ba",), ("aa", "ab"), ("ab",)], "trimsym": [("ba",)], "mono": [("ba",)],
                       "trimonly": [("aa", "ab"), ("ba",), ("ab", "bb")], "trimrename": [("ab", "ba"), ("ba",)]}
STATS = {
    "s0": (),
    "s1": (("k1", "a"),),
    "s2": (("k1", "a"), ("k2", "b")),
    "s2m": (("k1", "a"), ("k2", "a")),
    "s3d": (("k1", "a"), ("k2", "a"), ("k3", "z")),
}
SCHEDULES = {"one": (0,), "three": (2,), "all": (10000,), "mixed": (0, 1, 4, 0, 7)}


def configs(tier: str, seed: int, flavours=("default", "forget", "forest"), packs=None, stats=("s0",), max_n=None) -> List[tuple]:
    rnd = random.Random(seed + 101)
    packs = packs or [p for p in PACKS if p not in OPT_IN]
    out = []
    pats_ab = PATTERN_SETS_AB if tier == "thorough" else PATTERN_SETS_AB[:9]
    if tier == "thorough":
        # every set of one or two patterns of length <= 3 over {a,b} (the campaign then samples max_n configurations by seed)
        words = ["".join(w) for n in (1, 2, 3) for w in itertools.product("ab", repeat=n)]
        allsets = [[w] for w in words] + [[u, v] for u in words for v in words if u < v]
        pats_ab = pats_ab + [p for p in allsets if p not in pats_ab]
    for pats in pats_ab:
        for pk in packs:
            for fl in flavours:
                if fl == "forest" and PACKS[pk].get("iterative"):
                    continue
                if fl != "forest" and PACKS[pk].get("lazy"):
                    continue  # the pruning databases ignore shifts: they presuppose productive strategies
                if pk == "symcycle":
                    continue  # three-letter alphabets only (below)
                for st in ([PACK_STATS[pk]] if pk in PACK_STATS else stats):
                    if PACKS[pk].get("merge") and st in ("s0", "s1", "s2"):
                        continue
                    sch = rnd.choice(list(SCHEDULES)) if tier == "quick" else None
                    for s in ([sch] if sch else list(SCHEDULES)):
                        out.append(("", tuple(pats), "ab", st, pk, fl, s, True))
    # a pack in which the start class is only reachable through a foreign-parent rule / a reverse rule
    for pats in (("aa",), ("aa", "bb"), ("aba",), ("aab",)):
        for fl in flavours:
            if "needrev" in packs:
                out.append(("a", pats, "ab", stats[0], "needrev", fl, rnd.choice(list(SCHEDULES)), True))
    for pk, plist in PACK_EXTRA_PATTERNS.items():
        if pk in packs:
            for pats in plist:
                for fl in flavours:
                    out.append(("", pats, "ab", PACK_STATS[pk], pk, fl, rnd.choice(list(SCHEDULES)), True))
    for pats in PATTERN_SETS_ABC[: (4 if tier == "thorough" else 2)] + [["ab", "cc"], ["bc", "aa"]]:
        for pk in ("plain", "factory", "inf", "symcycle"):
            if pk not in packs:
                continue
            for fl in flavours:
                out.append(("", tuple(pats), "abc", stats[0], pk, fl, "mixed", True))
    out = list(dict.fromkeys(out))
    rnd.shuffle(out)
    if max_n:
        # configurations that must not be sampled away: the packs that exist for one specific mechanism
        special = [c for c in out if c[4] in ("lazy", "needrev", "oneway", "onewaysym", "pfactory", "split", "trim", "trimsym", "rename",
                                              "mono", "fac2", "symcycle", "trimonly", "trimrename", "hidden", "pfactory2", "noinf", "redpar", "lookahead", "ow2a", "ow2b", "fold", "swapexp")]
        keep = []
        seen = set()
        for c in special:
            k = (c[4], c[5])
            if k not in seen or len([x for x in keep if (x[4], x[5]) == k]) < 2:
                seen.add(k)
                keep.append(c)
        rest = [c for c in out if c not in keep]
        out = (keep + rest)[:max(max_n, len(keep))]
    return out


def build(cfg):
    from ..session import Session
    from ..universes import words as W

    prefix, pats, alph, st, pk, fl, sch, reverse = cfg
    pats = list(pats)
    if PACKS[pk].get("redpar"):
        pats = pats + [p + p[-1] for p in sorted(pats)[:1]]  # exactly the pattern AddRedundant adds to the minimal class
    elif W_needs_redundant(pk):
        pats = pats + [p + p[-1] for p in pats[:1]]  # a redundant pattern so that inferral has work
    start = W.WC(prefix, pats, alph, False, STATS[st])
    pack = W.make_pack(**PACKS[pk])
    return start, pack


def W_needs_redundant(pk):
    return (bool(PACKS[pk].get("inf")) and not PACKS[pk].get("oneway")) or bool(PACKS[pk].get("ow2"))


def tid_of(cfg):
    prefix, pats, alph, st, pk, fl, sch, reverse = cfg
    return "%s|%s|%s|%s|%s|%s|%s" % (prefix or "e", ",".join(pats), alph, st, pk, fl, sch)


def run_one(args):
    """Worker: run one session, return the requested traces (all JSON-able)."""
    cfg, wanted = args
    from ..session import Session

    start, pack = build(cfg)
    prefix, pats, alph, st, pk, fl, sch, reverse = cfg
    record = set(wanted)
    s = Session(start, pack, flavour=fl, schedule=SCHEDULES[sch], reverse=reverse,
                record=tuple(record | ({"classdb"} if "search" in record else set())))
    try:
        outcome, spec = s.run()
    finally:
        s.close()
    tid = tid_of(cfg)
    out = {"tid": tid, "outcome": outcome if outcome != "error" else "error:%s:%s" % (type(spec).__name__, str(spec)[:200]),
           "packets": len(s.packets), "checks": s.checks, "labels": len(s.classdb.label_to_info)}
    if "classdb" in wanted:
        out["classdb"] = s.classdb_trace(tid)
    if "queue" in wanted:
        out["queue"] = {"shape": list(s.q_rec.shape()[:2]) + [list(s.q_rec.shape()[2])], "trace": {"tid": tid, "events": s.ev["queue"]}}
    if "equiv" in wanted and fl != "forest":
        out["equiv"] = {"tid": tid, "events": s.ev["equiv"], "sig": "search"}
    if "table" in wanted and fl == "forest":
        nc = len(s.classdb.label_to_info)
        tev = []
        for e in s.ev["table"]:
            e = {k: v for k, v in e.items() if k != "bucket"}
            if e["op"] == "observe" and e["fn"]:
                e["fn"] = e["fn"] + [0] * (nc - len(e["fn"]))  # classes labelled later had no terms yet
            tev.append(e)
        out["table"] = {"tid": tid, "nc": nc, "events": tev, "sig": "search"}
    if "hasspec" in wanted and fl != "forest":
        out["hasspec"] = {"tid": tid, "events": s.ev["hasspec"]}
    if "search" in wanted:
        out["search"] = s.search_trace(tid)
    if "spec" in wanted:
        ev = [{"op": "outcome", "kind": out["outcome"].split(":")[1] if out["outcome"].startswith("error") else out["outcome"]}]
        nspecs = 0
        if outcome == "spec":
            max_n = 6 if alph == "ab" else 5
            ev += s.spec_events(spec, max_n=max_n)
            nspecs += 1
            # asking again without any new rule must give a valid specification again (caches, aliasing)
            from ..session import _ACTIVE as _ACT

            _ACT.append(s)
            try:
                spec_again = s.searcher.get_specification(minimization_time_limit=0) if fl != "forest" else s.searcher.get_specification()
                ev += s.spec_events(spec_again, max_n=max_n, stages=("final",))
                nspecs += 1
            except Exception as e:
                ev.append({"op": "outcome", "kind": "second-query:" + type(e).__name__})
            finally:
                _ACT.pop()
            if fl != "forest" and not pack.iterative:
                # the 'smallest' option on the same universe
                from ..session import _ACTIVE
                import comb_spec_searcher.tree_searcher as ts

                _ACTIVE.append(s)
                old = ts.time
                ts.time = s.tick
                try:
                    spec2 = s.searcher.get_specification(minimization_time_limit=0, smallest=True)
                    ev += s.spec_events(spec2, max_n=max_n)
                    nspecs += 1
                except Exception as e:
                    ev.append({"op": "outcome", "kind": "smallest:" + type(e).__name__})
                finally:
                    ts.time = old
                    _ACTIVE.pop()
        out["spec"] = s.spec_trace(tid, ev)
        out["nspecs"] = nspecs
    return out


def run_campaign(cfgs, wanted, procs=16):
    return pmap(run_one, [(c, tuple(wanted)) for c in cfgs], procs=procs, chunk=4)


# ---- per-monitor entry points used by the component drivers -------------------------------------

def _n(tier, q, t):
    return q if tier == "quick" else t


def classdb_traces(tier, seed):
    res = run_campaign(configs(tier, seed, max_n=_n(tier, 90, 1500)), ["classdb"])
    return [r["classdb"] for r in res]


def queue_traces(tier, seed) -> Dict[tuple, List[dict]]:
    res = run_campaign(configs(tier, seed, max_n=_n(tier, 120, 1500)), ["queue"])
    by: Dict[tuple, List[dict]] = {}
    for r in res:
        sh = r["queue"]["shape"]
        by.setdefault((sh[0], sh[1], tuple(sh[2])), []).append(r["queue"]["trace"])
    return by


def equiv_traces(tier, seed):
    cfgs = configs(tier, seed, flavours=("default", "forget"), packs=["sym", "inf", "syminf", "itersyminf", "plain", "merge"],
                   stats=("s0", "s2m"), max_n=_n(tier, 60, 800))
    res = run_campaign(cfgs, ["equiv"])
    return [r["equiv"] for r in res if "equiv" in r and len(r["equiv"]["events"]) > 0 and r["labels"] <= 70]


def table_traces(tier, seed):
    cfgs = configs(tier, seed, flavours=("forest",), max_n=_n(tier, 50, 600))
    res = run_campaign(cfgs, ["table"])
    return [r["table"] for r in res if "table" in r and r["labels"] <= 60]


def hasspec_traces(tier, seed):
    cfgs = configs(tier, seed, flavours=("default", "forget"), max_n=_n(tier, 80, 1000))
    res = run_campaign(cfgs, ["hasspec"])
    return [r["hasspec"] for r in res if "hasspec" in r and r["labels"] <= 80]
