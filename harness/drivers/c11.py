"""C11 - forest extraction returns a minimal, closed, productive rule set.

(a) TLC checks on every universe of <= k keys that a minimal productive subset is functional and
    closed (the theorem the extractor relies on) and exports the universes in which the root pumps;
    each, under several bucket assignments and in the given insertion order, goes through the real
    ForestRuleExtractor on a real TableMethod; seeded random universes (4-5 classes) go further.
(b) every forest search of the campaign (reverse rules on and off, including a pack in which the
    start class is only reachable through a reverse rule) has its extraction recorded: inserted keys
    U, extracted keys S and the forest keys of the concrete rules handed out.
TLC judges every extraction with ForestExtract.tla (Trace_Forest).
"""
import itertools
import json
import random

from .. import tlc
from ..common import Run, pmap
from . import search_campaign as sc

BUCKETS = ("NORMAL", "REVERSE", "EQUIV")


def key_json(k, empty=False):
    return {"p": int(k.parent), "ch": [int(c) for c in k.children], "sh": [int(s) for s in k.shifts], "b": k.bucket.name, "empty": bool(empty)}


def extract_job(args):
    """Run the real extractor on an integer universe.  args = (keys as dicts with bucket names, root)"""
    keys, root = args
    from comb_spec_searcher.rule_db.forest import ForestRuleExtractor, TableMethod
    from comb_spec_searcher.typing import ForestRuleKey, RuleBucket

    class StubDB:
        def __init__(self):
            self.table_method = TableMethod()

    db = StubDB()
    fkeys = [ForestRuleKey(k["p"], tuple(k["ch"]), tuple(k["sh"]), RuleBucket[k["b"]]) for k in keys]
    for fk in fkeys:
        db.table_method.add_rule_key(fk)
    if not db.table_method.is_pumping(root):
        return None
    U = [key_json(k) for k in fkeys]
    try:
        ex = ForestRuleExtractor(root, db, None, None)
        try:
            ex.check()
            checked = "ok"
        except AssertionError:
            checked = "check-failed"
        S = [key_json(k) for k in ex.needed_rules]
    except Exception as e:
        S, checked = [], type(e).__name__
    return {"op": "extract", "root": root, "U": U, "S": S, "rulekeys": [], "check": checked}


def export(run: Run, consts, label, all_buckets=False):
    wd = run.wd
    cfg = tlc.read_spec("MC_ForestExtract.cfg").replace("NC = 2 MaxShift = 1 MaxArity = 2 MaxKeys = 2", consts)
    if all_buckets:  # theorem + implementation-shaped Minimize over every bucket assignment, no export
        cfg = cfg.replace('EmitMode = "pumping" AllBuckets = FALSE', 'EmitMode = "none" AllBuckets = TRUE')
    tlc.write_module(wd, "MC_ForestExtract", tlc.read_spec("MC_ForestExtract.tla"), cfg)
    r = tlc.require_ok(tlc.run_tlc(wd, "MC_ForestExtract", workers=16, timeout=3000, heap="12g"), "MC_ForestExtract " + label)
    run.add_tlc(r, "MC_ForestExtract " + label)
    if r.status == "violated":
        run.tlc_violation(r, "MC_ForestExtract/" + label)
    out = [json.loads(tlc.parse_tla_value(ln)[1]) for ln in r.printed if ln.startswith('<<"H"')]
    if r.out.count('<<"H"') != len(out):
        raise tlc.MachineryError("interleaved PrintT output in MC_ForestExtract")
    return out


def with_buckets(universe, rnd, n_assign):
    idx = [i for i, k in enumerate(universe) if k["ch"]]
    assigns = list(itertools.product(BUCKETS, repeat=len(idx)))
    if n_assign and len(assigns) > n_assign:
        assigns = rnd.sample(assigns, n_assign)
    for a in assigns:
        u = [dict(k, b="VERIFICATION") if not k["ch"] else dict(k) for k in universe]
        for i, b in zip(idx, a):
            u[i]["b"] = b
        yield u


def random_universes(seed, n, nc, nkeys):
    rnd = random.Random(seed)
    out = []
    for _ in range(n):
        k = rnd.randint(3, nc)
        u = []
        for _ in range(rnd.randint(3, nkeys)):
            a = rnd.choice([0, 0, 1, 1, 2, 2, 3])
            u.append({"p": rnd.randrange(k), "ch": [rnd.randrange(k) for _ in range(a)], "sh": [rnd.randint(-2, 2) for _ in range(a)],
                      "b": rnd.choice(BUCKETS) if a else "VERIFICATION"})
        out.append(u)
    return out


def search_job(cfg):
    from ..session import Session

    start, pack = sc.build(cfg)
    prefix, pats, alph, st, pk, fl, sch, reverse = cfg
    if prefix:
        start = start.with_(prefix=prefix)
    s = Session(start, pack, flavour="forest", schedule=sc.SCHEDULES[sch], reverse=reverse, record=())
    try:
        outcome, spec = s.run()
        events = [{"op": "outcome", "kind": outcome, "error": (type(spec).__name__ + ": " + str(spec)[:120]) if outcome == "error" else ""}]
        if outcome == "spec" and s.extractions:
            S = s.extractions[-1]
            with s.cdb_rec.paused():
                U = [key_json(k) for k in s.ruledb.table_method._rules]
                empties = set(s.ruledb._already_empty)
                Sj = [key_json(k, empty=(k.parent in empties and not k.children)) for k in S]
                from comb_spec_searcher.strategies.rule import EquivalenceRule

                rk = []
                for r in s.raw_rules[-1]:
                    rk.append(key_json(r.forest_key(s.classdb.get_label, s.classdb.is_empty)))
                    if isinstance(r, EquivalenceRule):
                        # an equivalence rule with several children is handed out in its equivalence form;
                        # the concrete rule of the pack carrying the extracted key is the one it was made from
                        rk.append(key_json(r.original_rule.forest_key(s.classdb.get_label, s.classdb.is_empty)))
                nrules = len(s.raw_rules[-1])
            root = int(s.searcher.start_label)
            events.append({"op": "extract", "root": root, "U": U, "S": Sj, "rulekeys": []})
            events.append({"op": "rules", "root": root, "U": [], "S": Sj, "rulekeys": rk, "nrules": nrules})
    finally:
        s.close()
    return {"tid": sc.tid_of(cfg) + ("|rev" if reverse else "|norev") + "|" + prefix, "events": events, "outcome": outcome, "sig": "search"}


def judge(run: Run, traces, label):
    v = tlc.validate_traces(run.wd, "Trace_Forest", traces, jvms=14, tag=label, timeout=3000)
    run.add_verdicts(v, "Trace_Forest " + label)
    run.rejects(v, {t["tid"]: t for t in traces}, lambda tr, r: tr.get("sig", label))
    return v


def run(tier: str, seed: int) -> int:
    run_ = Run("C11", tier, seed)
    rnd = random.Random(seed + 11)
    universes = export(run_, "NC = 2 MaxShift = 1 MaxArity = 2 MaxKeys = 2", "2 classes, <=2 keys")
    if tier == "thorough":
        universes += export(run_, "NC = 2 MaxShift = 1 MaxArity = 2 MaxKeys = 3", "2 classes, <=3 keys")
        universes += export(run_, "NC = 3 MaxShift = 1 MaxArity = 1 MaxKeys = 3", "3 classes, arity<=1, <=3 keys")
    else:
        u3 = export(run_, "NC = 3 MaxShift = 1 MaxArity = 1 MaxKeys = 3", "3 classes, arity<=1, <=3 keys")
        universes += rnd.sample(u3, min(len(u3), 1500))
    # the implementation-shaped Minimize (transcription of _minimize) meets the post-conditions for every bucket assignment
    export(run_, "NC = 2 MaxShift = 1 MaxArity = 2 MaxKeys = 2", "Minimize transcription, all buckets, 2 classes, <=2 keys", all_buckets=True)
    if tier == "thorough":
        export(run_, "NC = 3 MaxShift = 1 MaxArity = 1 MaxKeys = 3", "Minimize transcription, all buckets, 3 classes, arity<=1, <=3 keys", all_buckets=True)
    jobs = []
    for u in universes:
        for ub in with_buckets(u, rnd, 3 if tier == "quick" else 9):
            jobs.append((ub, 0))
    for u in random_universes(seed + 12, 3000 if tier == "quick" else 40000, 5, 8):
        jobs.append((u, 0))
    evs = [e for e in pmap(extract_job, jobs, procs=16, chunk=128) if e is not None]
    traces = []
    for i, e in enumerate(evs):
        traces.append({"tid": "u%d" % i, "events": [e], "sig": "integer-universe"})
        if len(e["S"]) >= 2 and len(e["U"]) > len(e["S"]):
            run_.nt(json.dumps(e["U"]))
    run_.events += len(evs)
    run_.sample({"universe": evs[len(evs) // 2]})
    judge(run_, traces, "integer-universes")
    # (b) forest searches
    cfgs = []
    base = sc.configs(tier, seed, flavours=("forest",), stats=("s0", "s2m"), max_n=(60 if tier == "quick" else 600))
    for c in base:
        cfgs.append(c)
        cfgs.append(c[:7] + (False,))
    for pats in (("aa",), ("aa", "bb"), ("aba",), ("aab",)):
        for rev in (True, False):
            for sch in ("one", "all"):
                cfgs.append(("a", pats, "ab", "s0", "needrev", "forest", sch, rev))
    cfgs = list(dict.fromkeys(cfgs))  # the campaign already contains some of the reverse-needing configurations
    res = pmap(search_job, cfgs, procs=16, chunk=2)
    straces = [r for r in res if r["events"]]
    for r in straces:
        run_.events += len(r["events"])
        if len(r["events"]) < 2:
            continue
        if any(k["b"] == "REVERSE" for k in r["events"][1]["S"]):
            run_.nt("reverse:" + r["tid"])
        else:
            run_.nt("search:" + r["tid"])
    run_.extra["searches_using_reverse_rules"] = sum(1 for r in straces if len(r["events"]) > 1 and any(k["b"] == "REVERSE" for k in r["events"][1]["S"]))
    if straces:
        ex = next(r for r in straces if len(r["events"]) > 1)
        run_.sample({"search": ex["tid"], "S": ex["events"][1]["S"]})
        judge(run_, straces, "searches")
    run_.evaluations = len(traces) + len(straces)
    run_.rule = ("integer universes exported by TLC (root pumps) x bucket assignments + seeded random universes, each through the "
                 "real ForestRuleExtractor; forest searches with reverse on/off incl. a pack needing reverse rules; non-trivial = "
                 "extraction keeps >= 2 keys and discards some, or a real search")
    run_.assumptions = ["lazy empty rules are not handed out as concrete rules (the specification creates them on demand)"]
    return run_.finish()


def selftest(seed: int) -> int:
    run_ = Run("C11", "quick", seed)
    u = [{"p": 0, "ch": [1], "sh": [0], "b": "NORMAL"}, {"p": 1, "ch": [], "sh": [], "b": "VERIFICATION"},
         {"p": 0, "ch": [0], "sh": [1], "b": "NORMAL"}, {"p": 0, "ch": [], "sh": [], "b": "VERIFICATION"}]
    good = extract_job((u, 0))
    bad1 = json.loads(json.dumps(good)); bad1["S"] = bad1["U"][:3]
    bad2 = json.loads(json.dumps(good)); bad2["U"] = [k for k in bad2["U"] if k != bad2["S"][0]]
    tr = [{"tid": "good", "events": [good]}, {"tid": "corrupt", "events": [bad1]}, {"tid": "dropped", "events": [bad2]}]
    v = tlc.validate_traces(run_.wd, "Trace_Forest", tr, jvms=1)
    rejected = {r["tid"]: r["clause"] for r in v.rejects}
    tlc.clean_workdir(run_.wd)
    ok = set(rejected) == {"corrupt", "dropped"}
    print("selftest C11: rejected=%s -> %s" % (rejected, "OK" if ok else "FAILED"))
    return 0 if ok else 2


def replay(path: str, seed: int) -> int:
    d = json.load(open(path))
    print(json.dumps(d, indent=1)[:6000])
    return 1
