"""C20 - equations and generating functions agree with the true enumeration.

Every equation a campaign specification emits (all rule forms, 0-3 statistics incl. merged ones,
forward and reverse rules) is exported as an AST of the numerator of lhs - rhs (negative powers are
cleared by cross-multiplication) and evaluated by TLC (Series.tla) with every class function replaced
by the TRUE generating series of that class in x and its statistics (WordUniverse.tla), truncated at
order N: it must vanish coefficient by coefficient.  A returned closed form is normalised to P/Q in
Z[x] and TLC checks Q*C = P up to order M, with C the dynamic-programming counts and M = deg P + deg Q
+ |prefix| + 1 + sum |pattern|: the true series is A/B with deg A, deg B bounded by the pattern
automaton, so C - P/Q = (AQ - PB)/(BQ) has a numerator of degree <= M and agreement up to M forces
equality at every order, not only at the orders used to select the solution.
"""
import json

from .. import tlc
from ..common import Run, pmap
from ..session import Session
from . import search_campaign as sc
from . import c02


def ast_of(expr, fmap):
    """sympy expression -> AST; fmap: function name 'F_i' -> class name"""
    import sympy

    if expr.is_Integer:
        return {"t": "int", "v": int(expr)}
    if expr.is_Symbol:
        return {"t": "sym", "v": str(expr)}
    if expr.is_Add:
        return {"t": "add", "a": [ast_of(a, fmap) for a in expr.args]}
    if expr.is_Mul:
        return {"t": "mul", "a": [ast_of(a, fmap) for a in expr.args]}
    if expr.is_Pow:
        b, e = expr.args
        if not (e.is_Integer and int(e) >= 0):
            raise ValueError("negative or symbolic power survived: %s" % expr)
        return {"t": "pow", "a": [ast_of(b, fmap)], "e": int(e)}
    if isinstance(expr, sympy.core.function.AppliedUndef):
        name = expr.func.__name__
        if name not in fmap:
            raise ValueError("unknown function %s" % name)
        return {"t": "fn", "c": fmap[name], "a": [ast_of(a, fmap) for a in expr.args]}
    raise ValueError("unsupported expression node %s: %s" % (type(expr).__name__, expr))


def eq_event(eq, fmap, N):
    import sympy

    expr = sympy.together(eq.lhs - eq.rhs)
    num, den = sympy.fraction(expr)
    num = sympy.expand(num)
    vars_ = ["x"] + sorted({str(v) for v in num.free_symbols if str(v) != "x"})
    try:
        return {"op": "eq", "text": str(eq)[:200], "num": ast_of(num, fmap), "vars": vars_, "N": N}
    except ValueError as e:
        return {"op": "eq", "text": str(eq)[:200], "num": {"t": "int", "v": 1}, "vars": ["x"], "N": N, "error": str(e)[:120]}


def lab_job(args):
    """The equation of every rule form derived from one (class, strategy) pair of the rule laboratory, in isolation."""
    (ckey, sname) = args
    from ..universes import words as W
    from ..instrument import Namer
    from .. import rulelab

    prefix, patterns, alphabet, jp, stats = ckey
    c = W.WC(prefix, patterns, alphabet, jp, stats)
    s = getattr(W, sname)()
    namer = Namer("c")
    labels = {}

    def label(cl):
        return labels.setdefault(cl, len(labels))

    events = []
    problems = []
    forms = rulelab.derived_forms(c, s, problems)
    N = 6 if len(alphabet) == 2 else 5
    for fid, rule in forms:
        try:
            eq = rule.get_equation(lambda cl: cl.get_function(label))
        except NotImplementedError:
            continue
        except Exception as e:
            events.append({"op": "eq", "text": "%s: %s" % (fid, type(e).__name__), "num": {"t": "int", "v": 1}, "vars": ["x"], "N": N, "error": str(e)[:120], "form": fid})
            continue
        if not hasattr(eq, "lhs"):
            if bool(eq):
                continue  # an identity (sympy evaluated Eq(f, f))
            events.append({"op": "eq", "text": "%s: False" % fid, "num": {"t": "int", "v": 1}, "vars": ["x"], "N": N, "form": fid})
            continue
        fmap = {"F_%d" % i: namer(cl) for cl, i in labels.items()}
        ev = eq_event(eq, fmap, N)
        ev["form"] = fid
        events.append(ev)
    classes = {n: cl.desc() for cl, n in namer.names.items()}
    tid = "lab|%s|%s|%s|%s|%s" % (prefix or "e", ",".join(patterns), "".join(alphabet), ";".join("%s=%s" % (a, b) for a, b in stats) or "-", sname)
    return {"tid": tid, "classes": classes, "events": events, "sig": "lab/%s" % sname}


def job(args):
    import sympy

    cfg, want_genf = args
    start, pack = sc.build(cfg)
    prefix, pats, alph, st, pk, fl, sch, reverse = cfg
    s = Session(start, pack, flavour=fl, schedule=sc.SCHEDULES[sch], reverse=reverse, record=())
    try:
        outcome, spec = s.run()
        if outcome != "spec":
            return None
        namer = s.namer
        events = []
        try:
            eqs = list(spec.get_equations())
        except Exception as e:
            return None  # a fixture verification strategy without generating function
        fmap = {}
        for c in spec.comb_classes():
            fmap["F_%d" % spec.get_label(c)] = namer(c)
        N = 6 if alph == "ab" else 5
        for eq in eqs:
            if "NOTIMPLEMENTED" in str(eq):
                continue
            events.append(eq_event(eq, fmap, N))
        if want_genf and not start.extra_parameters and spec.number_of_rules() <= 12:
            x = sympy.var("x")
            try:
                g = spec.get_genf()
                P, Q = sympy.fraction(sympy.cancel(sympy.together(g)))
                Pp, Qp = sympy.Poly(P, x), sympy.Poly(Q, x)
                lc = sympy.ilcm(*[sympy.fraction(c)[1] for c in Pp.all_coeffs() + Qp.all_coeffs()])
                Pc = [int(c * lc) for c in reversed(Pp.all_coeffs())]
                Qc = [int(c * lc) for c in reversed(Qp.all_coeffs())]
                M = len(Pc) + len(Qc) + len(start.prefix) + 1 + sum(len(p) for p in start.patterns)
                if M <= 24:
                    events.append({"op": "genf", "c": namer(start), "P": Pc, "Q": Qc, "M": M, "text": str(g)[:120]})
            except Exception as e:
                pass  # no closed form returned: nothing is claimed
        classes = {n: c.desc() for c, n in namer.names.items() if hasattr(c, "desc")}
        return {"tid": sc.tid_of(cfg), "classes": classes, "events": events, "sig": "pack=%s/flavour=%s" % (pk, fl)}
    finally:
        s.close()


def run(tier: str, seed: int) -> int:
    run_ = Run("C20", tier, seed)
    packs = [p for p in sc.PACKS if p not in ("needrev",)]
    cfgs = sc.configs(tier, seed, stats=("s0", "s1", "s2m", "s3d"), packs=packs, max_n=(140 if tier == "quick" else 2500))
    jobs = [(c, i % 3 == 0 or tier == "thorough") for i, c in enumerate(cfgs)]
    traces = [t for t in pmap(job, jobs, procs=16, chunk=1) if t and t["events"]]
    from .. import rulelab
    pairs = rulelab.fixture_classes(tier, seed)
    pairs = [((c.prefix, c.patterns, c.alphabet, c.just_prefix, c.stats), type(st).__name__) for c, st in pairs]
    pairs = list(dict.fromkeys(pairs))
    if tier == "quick":
        pairs = pairs[:320]
    ncampaign = len(traces)
    traces += [t for t in pmap(lab_job, pairs, procs=16, chunk=4) if t and t["events"]]
    run_.extra["campaign_specifications"] = ncampaign
    run_.extra["laboratory_rule_pairs"] = len(traces) - ncampaign
    ngenf = 0
    for t in traces:
        run_.events += len(t["events"])
        for e in t["events"]:
            if e["op"] == "genf":
                ngenf += 1
                run_.nt("genf:" + t["tid"])
            elif len(json.dumps(e["num"])) > 200:
                run_.nt("eq:" + t["tid"] + e["text"])
    run_.evaluations = len(traces)
    ex = traces[0]
    run_.sample({"tid": ex["tid"], "equation": ex["events"][1] if len(ex["events"]) > 1 else ex["events"][0]})
    g = next((e for t in traces for e in t["events"] if e["op"] == "genf"), None)
    if g:
        run_.sample({"closed_form": g})
    v = tlc.validate_traces(run_.wd, "Trace_Series", traces, jvms=14, tag="series", timeout=3000, heap="4g")
    run_.add_verdicts(v, "Trace_Series")
    run_.rejects(v, {t["tid"]: t for t in traces}, lambda tr, r: tr["sig"] + "/" + tr["events"][r["event"] - 1]["op"] + "/" + tr["events"][r["event"] - 1].get("form", ""))
    run_.rule = ("the equation of every rule form (rule, reverse, equivalence, equivalence of a reverse, equivalence paths) of the rule "
                 "laboratory in isolation; every equation of every campaign specification (N = 6, 5 over three letters; 0-3 statistics) and the closed form "
                 "of parameter-free specifications with <= 12 rules (M <= 24); non-trivial = an equation with a non-trivial "
                 "right-hand side, each closed form")
    run_.extra["closed_forms_judged"] = ngenf
    run_.assumptions = ["sympy's together/expand/cancel are trusted for translating an expression into an AST / into P/Q; the identity "
                        "itself is evaluated by TLC against the TLA+-defined truth", "non-rational closed forms cannot arise in the word universe"]
    return run_.finish()


def selftest(seed: int) -> int:
    run_ = Run("C20", "quick", seed)
    good = job((("", ("aa",), "ab", "s1", "plain", "default", "one", True), True))
    good2 = job((("", ("aa",), "ab", "s0", "plain", "default", "one", True), True))
    bad1 = json.loads(json.dumps(good)); bad1["tid"] = "corrupt"
    e = next(e for e in bad1["events"] if e["op"] == "eq" and e["num"]["t"] == "add")
    e["num"]["a"].append({"t": "pow", "a": [{"t": "sym", "v": "x"}], "e": 3})
    bad2 = json.loads(json.dumps(good2)); bad2["tid"] = "dropped"
    g = next(e for e in bad2["events"] if e["op"] == "genf")
    g["P"][-1] += 1
    good["tid"], good2["tid"] = "good", "good2"
    v = tlc.validate_traces(run_.wd, "Trace_Series", [good, good2, bad1, bad2], jvms=1)
    rejected = {r["tid"]: r["clause"] for r in v.rejects}
    tlc.clean_workdir(run_.wd)
    ok = set(rejected) == {"corrupt", "dropped"}
    print("selftest C20: rejected=%s -> %s" % (rejected, "OK" if ok else "FAILED"))
    return 0 if ok else 2


replay = c02.replay
