"""C10 - declared shifts bound what a rule actually reads when counting (see c09.py)."""
from . import c09


def run(tier, seed):
    return c09.run(tier, seed, pid="C10")


def selftest(seed):
    return c09.selftest(seed, pid="C10")


replay = c09.replay
