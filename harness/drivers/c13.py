"""C13 - the parallel specification finder is total and its output is a matched pair (see c12.py)."""
from . import c12


def run(tier, seed):
    return c12.run(tier, seed, pid="C13")


def selftest(seed):
    return c12.selftest(seed, pid="C13")


replay = c12.replay
