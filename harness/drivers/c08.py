"""C08 - random sampling from a specification is exactly uniform (see c07.py)."""
from . import c07


def run(tier, seed):
    return c07.run(tier, seed, pid="C08")


def selftest(seed):
    return c07.selftest(seed, pid="C08")


replay = c07.replay
