"""C05 - pruning-based detection and proof-tree search are exact.

(A) TLC enumerates every rule dictionary over 2-3 labels (MC_Prune: two definitions of the greatest
    fixed point and of iterative derivability agree; a tree exists iff the root survives) and
    exports them.  Each dictionary, with every root, goes through the real prune, iterative_prune,
    random_proof_tree / smallish (every outcome of the random source, enumerated), the depth-first
    generator (all trees; every `maximum`), the breadth-first generator, the iterative finder and
    the binary search behind `smallest`; every result is an event judged by TLC (Trace_Prune).
(B) TLC enumerates every insertion history of rules into a rule database (MC_RuleDB); each is
    replayed into a real RuleDB (recursive and iterative pack) with has_specification() asked after
    every insertion (so a stale cache shows), judged against RuleDB.tla.
(C) Every has_specification() of real searches, with the rules recorded before it (search campaign).
"""
import json
import random

from .. import tlc
from ..common import Run, pmap
from ..enumrng import all_runs

NO_TREE = {"l": -1, "ch": []}


def ev(op, rd=(), root=0, res=(), tree=None, m=-1, cnt=0, finder="", rules=(), it=False, ans=False):
    return {"op": op, "rd": list(rd), "root": int(root), "res": list(res), "tree": tree or NO_TREE, "m": int(m),
            "cnt": int(cnt), "finder": finder, "rules": list(rules), "iter": bool(it), "ans": bool(ans)}


def to_list(d):
    return [{"k": int(k), "rs": [list(r) for r in sorted(d[k])]} for k in sorted(d) if d[k]]


def to_dict(lst):
    return {e["k"]: {tuple(r) for r in e["rs"]} for e in lst}


def tree_json(node):
    return {"l": int(node.label), "ch": [tree_json(c) for c in node.children]}


class StubPack:
    def __init__(self, iterative):
        self.iterative = iterative


class StubQueue:
    def set_stop_yielding(self, label):
        pass


class StubSearcher:
    def __init__(self, root, iterative):
        self.start_label = root
        self.strategy_pack = StubPack(iterative)
        self.classdb = None
        self.classqueue = StubQueue()


class StubRule:
    possibly_empty = False

    def __init__(self, arity, tw):
        self.children = (None,) * arity
        self.tw = tw
        self.strategy = ("strategy", arity, tw)

    def is_two_way(self):
        return self.tw


def min_tree_size(d, root):
    """Only used to choose which `maximum` values to try; the judge recomputes it in TLA+."""
    best = None
    keys = sorted(d)
    import itertools

    for sel in itertools.product(*[sorted(d[k]) for k in keys]):
        s = dict(zip(keys, sel))
        seen, fr = {root}, [root]
        ok = True
        while fr:
            x = fr.pop()
            for c in s[x]:
                if c not in s:
                    ok = False
                elif c not in seen:
                    seen.add(c)
                    fr.append(c)
        if ok:
            size = 1 + sum(len(s[k]) for k in seen)
            best = size if best is None else min(best, size)
    return best


def dict_events(args):
    """All events for one exported dictionary (every root)."""
    lst, tier = args
    from comb_spec_searcher import tree_searcher as ts
    from comb_spec_searcher.rule_db import RuleDB

    d0 = to_dict(lst)
    events = []
    # prune (in place on a copy)
    d = {k: set(v) for k, v in d0.items()}
    try:
        ts.prune(d)
        events.append(ev("prune", rd=lst, res=to_list(d)))
    except Exception as e:
        events.append(ev("prune", rd=lst, res=[{"k": -1, "rs": [[hash(type(e).__name__) % 97]]}]))
        d = None
    labels = sorted({k for k in d0} | {c for rs in d0.values() for r in rs for c in r})
    limit = 60 if tier == "quick" else 400
    for root in labels:
        # iterative
        try:
            ip = ts.iterative_prune({k: set(v) for k, v in d0.items()}, root=root)
            ipl = to_list(ip)
            events.append(ev("iter_prune", rd=lst, root=root, res=ipl))
            if root in ip:
                t = ts.iterative_proof_tree_finder({k: set(v) for k, v in ip.items()}, root=root)
                events.append(ev("tree", rd=ipl, root=root, tree=tree_json(t), finder="iterative_proof_tree_finder"))
        except Exception as e:
            events.append(ev("iter_prune", rd=lst, root=root, res=[{"k": -1, "rs": [[1]]}], finder=type(e).__name__))
        if d is None or root not in d:
            continue
        pl = to_list(d)
        # random finder: all outcomes of choice/shuffle
        def rnd(dec):
            ts.choice, ts.shuffle = dec.choice, dec.shuffle
            return ts.random_proof_tree(d, root)

        old = (ts.choice, ts.shuffle)
        try:
            seen = set()
            for _script, t in all_runs(rnd, limit=limit):
                tj = tree_json(t)
                key = json.dumps(tj)
                if key not in seen:
                    seen.add(key)
                    events.append(ev("tree", rd=pl, root=root, tree=tj, finder="random_proof_tree"))

            def small(dec):
                ts.choice, ts.shuffle = dec.choice, dec.shuffle
                return ts.smallish_random_proof_tree(d, root, 0)

            for _script, t in all_runs(small, limit=8):
                events.append(ev("tree", rd=pl, root=root, tree=tree_json(t), finder="smallish_random_proof_tree"))
        finally:
            ts.choice, ts.shuffle = old
        # depth-first generator: all trees, and every maximum around the minimum size
        n = 0
        for t in ts.proof_tree_generator_dfs(d, root):
            events.append(ev("tree", rd=pl, root=root, tree=tree_json(t), finder="proof_tree_generator_dfs"))
            n += 1
            if n >= limit:
                break
        ms = min_tree_size(d, root) or 1
        for m in range(0, ms + 3):
            ts_ = list(ts.proof_tree_generator_dfs(d, root, maximum=m))
            events.append(ev("dfs_max", rd=pl, root=root, m=m, cnt=len(ts_)))
            for t in ts_[:limit]:
                events.append(ev("tree", rd=pl, root=root, tree=tree_json(t), m=m, finder="proof_tree_generator_dfs"))
        # breadth-first generator (it builds sibling subtrees independently and filters the inconsistent combinations out,
        # so the next tree may be exponentially far away: a time budget bounds the enumeration, what was yielded is judged)
        import signal

        class _Budget(Exception):
            pass

        def _stop(signum, frame):
            raise _Budget()

        n = 0
        old_handler = signal.signal(signal.SIGALRM, _stop)
        signal.setitimer(signal.ITIMER_REAL, 2.0)
        try:
            for t in ts.proof_tree_generator_bfs(d, root):
                events.append(ev("tree", rd=pl, root=root, tree=tree_json(t), finder="proof_tree_generator_bfs"))
                n += 1
                if n >= limit:
                    break
        except _Budget:
            pass
        finally:
            signal.setitimer(signal.ITIMER_REAL, 0)
            signal.signal(signal.SIGALRM, old_handler)
        # smallest: the binary search of the rule database on this pruned dictionary
        db = RuleDB()
        db.link_searcher(StubSearcher(root, False))
        db._pruned_dict = {k: set(v) for k, v in d.items()}
        old = (ts.choice, ts.shuffle)
        try:
            rr = random.Random(hash(json.dumps(lst)) & 0xFFFF)
            ts.choice, ts.shuffle = rr.choice, rr.shuffle
            t = db._get_smallest_node(0)
            events.append(ev("smallest", rd=pl, root=root, tree=tree_json(t)))
        except Exception as e:
            events.append(ev("smallest", rd=pl, root=root, tree=NO_TREE, finder=type(e).__name__))
        finally:
            ts.choice, ts.shuffle = old
    return events


def history_events(args):
    """Insert the rules in order into a real RuleDB; ask has_specification after every insertion."""
    hist, iterative = args
    from comb_spec_searcher.rule_db import RuleDB

    db = RuleDB()
    db.link_searcher(StubSearcher(0, iterative))
    events = []
    rules = []
    for r in hist:
        db.add(r["s"], tuple(r["e"]), StubRule(len(r["e"]), r["tw"]))
        rules.append({"s": r["s"], "e": list(r["e"]), "tw": bool(r["tw"])})
        try:
            ans = bool(db.has_specification())
            events.append(ev("hasspec", rules=rules, root=0, it=iterative, ans=ans))
        except Exception as e:
            events.append(ev("hasspec", rules=rules, root=0, it=iterative, ans=False, finder=type(e).__name__))
            events[-1]["op"] = "hasspec-raised-" + type(e).__name__
    return events


def export(run, module, cfg_from, cfg_to, label, workers=16):
    wd = run.wd
    tlc.write_module(wd, module, tlc.read_spec(module + ".tla"), tlc.read_spec(module + ".cfg").replace(cfg_from, cfg_to))
    r = tlc.require_ok(tlc.run_tlc(wd, module, workers=workers, timeout=3000, heap="12g"), module + " " + label)
    run.add_tlc(r, "%s %s" % (module, label))
    if r.status == "violated":
        run.tlc_violation(r, module + "/" + label)
    out = [json.loads(tlc.parse_tla_value(ln)[1]) for ln in r.printed if ln.startswith('<<"H"')]
    if r.out.count('<<"H"') != len(out):
        raise tlc.MachineryError("interleaved PrintT output in %s" % module)
    return out


def random_dicts(seed, n, maxlabels, maxper, maxarity):
    rnd = random.Random(seed)
    out = []
    for _ in range(n):
        nl = rnd.randint(2, maxlabels)
        d = []
        for k in range(nl):
            rs = {tuple(sorted(rnd.randrange(nl) for _ in range(rnd.randint(0, maxarity)))) for _ in range(rnd.randint(0, maxper))}
            if rs:
                d.append({"k": k, "rs": [list(r) for r in sorted(rs)]})
        out.append(d)
    return out


def judge(run: Run, traces, label):
    v = tlc.validate_traces(run.wd, "Trace_Prune", traces, jvms=14, tag=label, timeout=3000)
    run.add_verdicts(v, "Trace_Prune " + label)
    by = {t["tid"]: t for t in traces}

    def sig(tr, r):
        e = tr["events"][r["event"] - 1]
        return "%s/%s" % (e["op"], e["finder"] or ("iter" if e["iter"] else "rec"))

    run.rejects(v, by, sig)
    return v


def run(tier: str, seed: int) -> int:
    run_ = Run("C05", tier, seed)
    # implementation-shaped prune / iterative_prune (any dictionary iteration order) end in the fixed points
    consts = "NL = 2 MaxPer = 3 MaxArity = 2" if tier == "quick" else "NL = 3 MaxPer = 2 MaxArity = 2"
    tlc.write_module(run_.wd, "MC_PruneAlg", tlc.read_spec("MC_PruneAlg.tla"), tlc.read_spec("MC_PruneAlg.cfg").replace("NL = 2 MaxPer = 2 MaxArity = 2", consts))
    rp = tlc.require_ok(tlc.run_tlc(run_.wd, "MC_PruneAlg", workers=16, timeout=3000, heap="12g"), "MC_PruneAlg")
    run_.add_tlc(rp, "MC_PruneAlg (small-step prune / iterative_prune, every order) " + consts)
    if rp.status == "violated":
        run_.tlc_violation(rp, "MC_PruneAlg")
    # (A) dictionaries
    dicts = export(run_, "MC_Prune", "NL = 2 MaxPer = 2 MaxArity = 2", "NL = 2 MaxPer = 3 MaxArity = 2", "all dictionaries, 2 labels, <=3 rules per label")
    if tier == "quick":
        dicts += export(run_, "MC_Prune", "NL = 2 MaxPer = 2 MaxArity = 2", "NL = 3 MaxPer = 1 MaxArity = 2", "all dictionaries, 3 labels, <=1 rule per label")
        dicts += random_dicts(seed + 5, 1800, 4, 3, 3)
    else:
        dicts += export(run_, "MC_Prune", "NL = 2 MaxPer = 2 MaxArity = 2", "NL = 3 MaxPer = 2 MaxArity = 2", "all dictionaries, 3 labels, <=2 rules per label")
        dicts += random_dicts(seed + 5, 20000, 5, 3, 3)
    dicts = [d for d in dicts if d]
    traces = []
    CH = 20000  # dictionaries per chunk: their events are judged and dropped before the next chunk is produced
    for lo in range(0, len(dicts), CH):
        part = dicts[lo:lo + CH]
        evs = pmap(dict_events, [(d, tier) for d in part], procs=16, chunk=64)
        ctraces = []
        for i, (d, e) in enumerate(zip(part, evs)):
            # the breadth-first generator's trees are judged in a trace of their own, so that its known finding
            # cannot mask a later event of the same dictionary
            ctraces.append({"tid": "d%d" % (lo + i), "events": [x for x in e if x["finder"] != "proof_tree_generator_bfs"]})
            bfs = [x for x in e if x["finder"] == "proof_tree_generator_bfs"]
            for j, x in enumerate(bfs):
                ctraces.append({"tid": "d%d-bfs%d" % (lo + i, j), "events": [x]})
            run_.events += len(e)
            ntrees = len({json.dumps(x["tree"]) for x in e if x["op"] == "tree"})
            if ntrees >= 2:
                run_.nt(json.dumps(d))
        if lo == 0:
            run_.sample({"dictionary": part[len(part) // 2], "events": [x for x in evs[len(part) // 2] if x["op"] in ("prune", "smallest")][:3]})
        run_.evaluations += len(ctraces)
        judge(run_, ctraces, "dictionaries-%d" % (lo // CH))
        del ctraces, evs
    # (B) insertion histories into a real RuleDB
    hists = export(run_, "MC_RuleDB", "NL = 3 MaxRules = 2", "NL = 3 MaxRules = %d" % (2 if tier == "quick" else 3), "all insertion histories, 3 labels")
    if tier == "thorough":
        pass
    else:
        rnd = random.Random(seed + 6)
        extra = export(run_, "MC_RuleDB", "NL = 3 MaxRules = 2", "NL = 3 MaxRules = 3", "all insertion histories, 3 labels, 3 rules")
        hists += rnd.sample(extra, 2000)
    # longer seeded histories rich in one-way single-child rules (cycles that change the root's representative late)
    rndh = random.Random(seed + 8)
    for _ in range(2500 if tier == "quick" else 40000):
        nl = rndh.randint(3, 5)
        h = []
        for _ in range(rndh.randint(3, 6)):
            kind = rndh.random()
            s0 = rndh.randrange(nl)
            if kind < 0.55:
                h.append({"s": s0, "e": [rndh.randrange(nl)], "tw": rndh.random() < 0.25})
            elif kind < 0.7:
                h.append({"s": s0, "e": [], "tw": False})
            else:
                h.append({"s": s0, "e": sorted(rndh.randrange(nl) for _ in range(2)), "tw": False})
        hists.append(h)
    jobs = [(h, it) for h in hists for it in (False, True)]
    hevs = pmap(history_events, jobs, procs=16, chunk=128)
    for i, ((h, it), e) in enumerate(zip(jobs, hevs)):
        traces.append({"tid": "r%d" % i, "events": e})
        run_.events += len(e)
        if any(x["ans"] for x in e) and any(len(r["e"]) == 1 for r in h):
            run_.nt("hist:%s:%s" % (it, json.dumps(h)))
    run_.sample({"insertion_history": jobs[-1][0], "iterative": jobs[-1][1], "answers": [x["ans"] for x in hevs[-1]]})
    run_.evaluations += len(traces)
    judge(run_, traces, "insertion-histories")
    try:
        from . import search_campaign
    except ImportError:
        search_campaign = None
    if search_campaign is not None:
        straces = search_campaign.hasspec_traces(tier, seed)
        for t in straces:
            run_.nt("search:" + t["tid"])
        if straces:
            judge(run_, straces, "search")
    run_.rule = ("(A) every rule dictionary over 2 labels (<=3 rules each) and over 3 labels (<=2 rules each; sampled by seed in "
                 "the quick tier), every root, through prune / iterative_prune / all finders with all outcomes of the random source; "
                 "(B) every insertion history of <=2-3 rules over 3 labels into a real RuleDB (recursive and iterative), "
                 "has_specification after each insertion; non-trivial = a dictionary with >= 2 distinct proof trees, a history "
                 "with an equivalence rule in which a specification appears; (C) has_specification calls of real searches")
    run_.extra["events_judged"] = run_.events
    run_.assumptions = ["iterative_proof_tree_bfs (not exported, unused by the library) is outside the finder list"]
    return run_.finish()


def selftest(seed: int) -> int:
    run_ = Run("C05", "quick", seed)
    lst = [{"k": 0, "rs": [[1, 1], [0, 0]]}, {"k": 1, "rs": [[]]}]
    good = dict_events((lst, "quick"))
    bad1 = json.loads(json.dumps(good))
    for e in bad1:
        if e["op"] == "tree":
            e["tree"] = {"l": 0, "ch": [{"l": 1, "ch": []}]}  # uses a rule (1,) that is not recorded
            break
    bad2 = [e for e in json.loads(json.dumps(good))]
    bad2[0]["res"] = [x for x in bad2[0]["res"] if x["k"] != 1]  # a survivor dropped from the pruned dictionary
    traces = [{"tid": "good", "events": good}, {"tid": "corrupt", "events": bad1}, {"tid": "dropped", "events": bad2}]
    v = tlc.validate_traces(run_.wd, "Trace_Prune", traces, jvms=1)
    rejected = {r["tid"]: r["clause"] for r in v.rejects}
    tlc.clean_workdir(run_.wd)
    ok = set(rejected) == {"corrupt", "dropped"}
    print("selftest C05: rejected=%s -> %s" % (rejected, "OK" if ok else "FAILED"))
    return 0 if ok else 2


def replay(path: str, seed: int) -> int:
    d = json.load(open(path))
    print(json.dumps(d, indent=1)[:6000])
    return 1
