"""C16 - the work queue schedules every class completely, once, in order, and terminates.

1. TLC model-checks the implementation-shaped queue of ClassQueue.tla against the property clauses
   P1-P5 (ghost layer) for several pack shapes, every interleaving of add / stop / verified /
   not-inferrable / next / do_level to a depth bound; exports a transition cover and simulator runs.
2. The histories are replayed on real DefaultQueue objects; every call is recorded.
3. TLC judges each recorded trace with Trace_ClassQueue (ghost layer: fatal; implementation-shaped
   layer: divergence info only).
4. Queue traffic of real searches (inferral / multi-set packs included) is judged the same way.
"""
import json

from .. import tlc
from ..common import Run
from ..instrument import QueueRecorder

SHAPES_QUICK = [(1, 1, (1,)), (0, 1, (2,)), (1, 2, (1, 1)), (1, 0, ()), (0, 0, (1,))]
SHAPES_THOROUGH = SHAPES_QUICK + [(1, 1, (2, 1)), (0, 2, (1,)), (1, 1, ()), (0, 1, ()), (1, 0, (1, 2)), (0, 0, (2, 1))]


def tla_seq(xs):
    return "<<" + ", ".join(str(x) for x in xs) + ">>"


class FakeStrat:
    def __init__(self, name):
        self.name = name

    def __repr__(self):
        return self.name


class FakePack:
    def __init__(self, shape):
        ninf, ninit, exp = shape
        self.inferral_strats = tuple(FakeStrat("INF%d" % i) for i in range(2 * ninf))
        self.initial_strats = tuple(FakeStrat("INIT%d" % (i + 1)) for i in range(ninit))
        self.expansion_strats = tuple(tuple(FakeStrat("E%d_%d" % (s + 1, i + 1)) for i in range(k)) for s, k in enumerate(exp))


def replay_history(hist, shape):
    from comb_spec_searcher.class_queue import DefaultQueue
    from comb_spec_searcher.exception import NoMoreClassesToExpandError

    q = DefaultQueue(FakePack(shape))
    rec = QueueRecorder(q)
    gen = None
    try:
        for o in hist:
            op, a = o["op"], o["a"]
            try:
                if op == "add":
                    q.add(a)
                elif op == "stop":
                    q.set_stop_yielding(a)
                elif op == "verified":
                    q.set_verified(a)
                elif op == "notinf":
                    q.set_not_inferrable(a)
                elif op == "next":
                    next(q)
                elif op == "dl_start":
                    gen = q.do_level()
                    try:
                        next(gen)
                    except (StopIteration, NoMoreClassesToExpandError):
                        gen = None
                elif op == "dl_next":
                    if gen is None:
                        continue  # the generator already finished on its first step
                    try:
                        next(gen)
                    except (StopIteration, NoMoreClassesToExpandError):
                        gen = None
                else:
                    raise tlc.MachineryError("unknown op %r" % (o,))
            except (StopIteration, NoMoreClassesToExpandError):
                pass
    finally:
        rec.close()
    return rec.events


def model_run(run: Run, shape, tier, seed, nl, depth, emit, cover_depth=None):
    ninf, ninit, exp = shape
    wd = run.wd
    body = tlc.substitute(tlc.read_spec("MC_ClassQueue.tla"), {"EXP": tla_seq(exp)})
    base = tlc.read_spec("MC_ClassQueue.cfg")

    def cfg(view, mode, d):
        c = base.replace("NInf = 1 NInit = 1 NL = 2 MaxDepth = 9", "NInf = %d NInit = %d NL = %d MaxDepth = %d" % (ninf, ninit, nl, d))
        return c.replace('EmitMode = "none"', 'EmitMode = "%s"' % mode).replace("VIEW ViewCheck", "VIEW " + view)

    label = "shape=%s" % (shape,)
    # (1) exhaustive check of the clauses to the depth bound
    tlc.write_module(wd, "MC_ClassQueue", body, cfg("ViewCheck", "none", depth))
    r = tlc.require_ok(tlc.run_tlc(wd, "MC_ClassQueue", workers=16, timeout=1500), "MC_ClassQueue " + label)
    run.add_tlc(r, "MC_ClassQueue exhaustive %s labels=%d depth=%d" % (label, nl, depth))
    if r.status == "violated":
        run.tlc_violation(r, "MC_ClassQueue/" + label)
    hists = []
    if emit:
        # (2) transition cover of the implementation-shaped state graph
        tlc.write_module(wd, "MC_ClassQueue", body, cfg("ViewCover", "all", cover_depth or depth))
        c = tlc.require_ok(tlc.run_tlc(wd, "MC_ClassQueue", workers=1, timeout=1500), "MC_ClassQueue cover " + label)
        run.add_tlc(c, "MC_ClassQueue transition cover %s" % label)
        hists = [json.loads(h[1]) for h in c.tuples("H")]
        # keep maximal histories only (a history that is a proper prefix of another adds nothing)
        hs = {json.dumps(h) for h in hists}
        prefixes = set()
        for h in hists:
            for k in range(1, len(h)):
                prefixes.add(json.dumps(h[:k]))
        hists = [json.loads(x) for x in sorted(hs - prefixes)]
        # (3) long random behaviours
        num, d2 = (150, 22) if tier == "quick" else (2500, 34)
        tlc.write_module(wd, "MC_ClassQueue", body, cfg("ViewCheck", "final", d2).replace("NL = %d" % nl, "NL = 3"))
        s = tlc.require_ok(tlc.run_tlc(wd, "MC_ClassQueue", workers=1, simulate="num=%d" % num, depth=d2 + 2,
                                       seed=seed + 7, timeout=1500), "MC_ClassQueue simulate " + label)
        run.add_tlc(s, "MC_ClassQueue simulate num=%d depth=%d %s" % (num, d2, label))
        if s.status == "violated":
            run.tlc_violation(s, "MC_ClassQueue-simulate/" + label)
        seen = set()
        for h in s.tuples("H"):
            if h[1] not in seen:
                seen.add(h[1])
                hists.append(json.loads(h[1]))
    return hists


def judge(run: Run, traces, shape, label):
    ninf, ninit, exp = shape
    v = tlc.validate_traces(run.wd, "Trace_ClassQueue", traces, jvms=6, tag="%s-%d-%d-%s" % (label, ninf, ninit, "_".join(map(str, exp))),
                            subst={"NINF": str(ninf), "NINIT": str(ninit), "EXP": tla_seq(exp)})
    run.add_verdicts(v, "Trace_ClassQueue %s shape=%s" % (label, shape))
    by = {t["tid"]: t for t in traces}
    run.rejects(v, by, lambda tr, r: "shape=%s" % (shape,))
    div = [i for i in v.infos if i[1] == "DIVERGE"]
    run.extra["divergences"] = run.extra.get("divergences", 0) + len(div)
    if div and "divergence_samples" not in run.extra:
        run.extra["divergence_samples"] = div[:3]
    return v


def run(tier: str, seed: int) -> int:
    run_ = Run("C16", tier, seed)
    shapes = SHAPES_QUICK if tier == "quick" else SHAPES_THOROUGH
    nl, depth = (2, 9) if tier == "quick" else (2, 11)
    for shape in shapes:
        hists = model_run(run_, shape, tier, seed, nl, depth, emit=True, cover_depth=7 if tier == "quick" else 9)
        traces = []
        for i, h in enumerate(hists):
            ev = replay_history(h, shape)
            traces.append({"tid": "s%s-h%d" % ("".join(map(str, (shape[0], shape[1]) + shape[2])), i), "events": ev})
            run_.events += len(ev)
            handed = [e for e in ev if e["ret"]["k"] in ("inf", "init", "exp")]
            if len({e["ret"]["l"] for e in handed}) >= 2 and any(e["op"] in ("stop", "verified", "notinf") for e in ev):
                run_.nt(json.dumps([(e["op"], e["a"]) for e in ev]) + str(shape))
        run_.evaluations += len(traces)
        if traces:
            run_.sample({"shape": shape, "trace": traces[len(traces) // 2]}, limit=4)
            judge(run_, traces, shape, "replayed")
    if tier == "thorough":  # three labels, smaller depth, exhaustive clause check only
        for shape in [(1, 1, (1,)), (1, 2, (1, 1)), (0, 1, (2,))]:
            model_run(run_, shape, tier, seed, 3, 8, emit=False)
    try:
        from . import search_campaign
    except ImportError:
        search_campaign = None
    if search_campaign is not None:
        for shape, straces in search_campaign.queue_traces(tier, seed).items():
            for t in straces:
                run_.nt("search:" + t["tid"])
            run_.sample({"search_trace_head": {**straces[0], "events": straces[0]["events"][:10]}, "shape": shape}, limit=6)
            judge(run_, straces, shape, "search")
    run_.rule = ("per pack shape (NInf, NInit, Exp): exhaustive interleavings of add/stop/verified/notinf/next/do_level "
                 "over %d labels to depth %d on the model; replayed = transition cover of the implementation-shaped state graph "
                 "+ simulator behaviours over 3 labels; non-trivial = work handed out for >= 2 labels and at least one "
                 "stop/verified/not-inferrable mark; plus queue traffic of real searches" % (nl, depth))
    run_.extra["events_judged"] = run_.events
    run_.extra["pack_shapes"] = [list(map(str, s)) for s in shapes]
    run_.assumptions = ["strategies of a pack are distinct objects (a packet is identified by label and strategy position)",
                        "order between different labels is not part of the property and is only compared as a divergence"]
    return run_.finish()


def selftest(seed: int) -> int:
    run_ = Run("C16", "quick", seed)
    shape = (1, 1, (1,))
    h = [{"op": "add", "a": 0}, {"op": "add", "a": 1}, {"op": "next", "a": -1}, {"op": "next", "a": -1},
         {"op": "stop", "a": 1}, {"op": "next", "a": -1}, {"op": "next", "a": -1}, {"op": "next", "a": -1}]
    good = replay_history(h, shape)
    bad1 = json.loads(json.dumps(good))
    bad1[3]["ret"] = dict(bad1[2]["ret"])  # same packet twice
    bad2 = [e for i, e in enumerate(good) if i != 0]  # dropped add(0)
    traces = [{"tid": "good", "events": good}, {"tid": "corrupt", "events": bad1}, {"tid": "dropped", "events": bad2}]
    v = tlc.validate_traces(run_.wd, "Trace_ClassQueue", traces, jvms=1, subst={"NINF": "1", "NINIT": "1", "EXP": "<<1>>"})
    rejected = {r["tid"]: r["clause"] for r in v.rejects}
    tlc.clean_workdir(run_.wd)
    ok = set(rejected) == {"corrupt", "dropped"}
    print("selftest C16: rejected=%s -> %s" % (rejected, "OK" if ok else "FAILED"))
    return 0 if ok else 2


def replay(path: str, seed: int) -> int:
    d = json.load(open(path))
    print(json.dumps(d, indent=1)[:6000])
    return 1
