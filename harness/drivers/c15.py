"""C15 - the class database is a stable bijection between classes and dense labels.

1. TLC model-checks ClassDB.tla (all public calls, 3 classes one of which is truly empty, integer
   probes -2..4) and exports a transition cover of the abstract state graph (one shortest history
   per distinct (state, call)) plus random long histories from the simulator.
2. Every history is replayed on real ClassDB objects - one fixture class kind stored as is, one
   stored zlib-compressed through to_bytes/from_bytes - with every call recorded.
3. TLC judges every recorded trace with Trace_ClassDB (same operators).
4. The class-database traffic of real searches (word universe, all rule-db flavours) is judged too.
"""
import json
import random

from .. import tlc
from ..common import Run
from ..instrument import ClassDBRecorder


def _fixture_classes():
    from comb_spec_searcher import CombinatorialClass

    class KC(CombinatorialClass):
        """Opaque fixture class: a name and its own answer to is_empty()."""

        def __init__(self, name, empty):
            self.name, self.empty = name, empty

        def is_empty(self):
            return self.empty

        @classmethod
        def from_dict(cls, d):
            return cls(d["name"], d["empty"])

        def __eq__(self, other):
            return type(other) is type(self) and self.name == other.name

        def __hash__(self):
            return hash(self.name)

        def __repr__(self):
            return "KC(%r)" % self.name

        __str__ = __repr__

    class KCB(KC):
        """Same, but stored compressed (to_bytes / from_bytes)."""

        def to_bytes(self):
            return ("%s|%d" % (self.name, self.empty)).encode()

        @classmethod
        def from_bytes(cls, b):
            n, e = b.decode().split("|")
            return cls(n, e == "1")

    class KCM(KCB):
        """Mixed: some instances cannot be compressed (to_bytes raises NotImplementedError for them), the others are
        stored compressed - the database must hold both kinds side by side."""

        def to_bytes(self):
            if self.name == "b":
                raise NotImplementedError
            return KCB.to_bytes(self)

    return KC, KCB, KCM


def replay_history(hist, kind_cls, te):
    """Run one operation history on a fresh real ClassDB; return the recorded events."""
    from comb_spec_searcher.class_db import ClassDB

    db = ClassDB(kind_cls)
    namer = lambda c: c.name  # noqa: E731
    rec = ClassDBRecorder(db, namer)
    mk = lambda n: kind_cls(n, n in te)  # noqa: E731  (a fresh, equal instance on every call)
    try:
        for o in hist:
            op, kc = o["op"], o["kc"]
            try:
                if op == "observe":
                    rec.observe()
                elif op == "get_label":
                    db.get_label(mk(o["c"]) if kc == "c" else o["l"])
                elif op == "get_class":
                    db.get_class(mk(o["c"]) if kc == "c" else o["l"])
                elif op == "add":
                    db.add(mk(o["c"]))
                elif op == "contains":
                    (mk(o["c"]) if kc == "c" else o["l"]) in db
                elif op == "is_empty":
                    if kc == "c":
                        db.is_empty(mk(o["c"]))
                    else:
                        db.is_empty(mk(o["c"]), o["l"])
                elif op == "set_empty":
                    db.set_empty(mk(o["c"]) if kc == "c" else o["l"], o["b"])
                else:
                    raise tlc.MachineryError("unknown op %r" % (o,))
            except tlc.MachineryError:
                raise
            except Exception:
                pass  # recorded by the recorder as the call's outcome
        rec.observe()
    finally:
        rec.close()
    return rec.events


def model_histories(run: Run, tier: str, seed: int):
    wd = run.wd
    body = tlc.read_spec("MC_ClassDB.tla")
    cfg = tlc.read_spec("MC_ClassDB.cfg")
    tlc.write_module(wd, "MC_ClassDB", body, cfg)
    res = tlc.require_ok(tlc.run_tlc(wd, "MC_ClassDB", workers=1, timeout=900), "MC_ClassDB exhaustive")
    run.add_tlc(res, "MC_ClassDB exhaustive state graph (VIEW hides history) + transition cover export")
    if res.status == "violated":
        run.tlc_violation(res, "MC_ClassDB")
    hists = [json.loads(h[1]) for h in res.tuples("H")]
    cover = len(hists)
    # random long behaviours from TLC's simulator
    num, depth = (300, 14) if tier == "quick" else (6000, 24)
    simcfg = cfg.replace("MaxDepth = 30", "MaxDepth = %d" % depth).replace("INVARIANT Emit", "INVARIANT EmitFinal")
    simbody = body.replace(
        "=============================================================================",
        "EmitFinal == Len(hist) = MaxDepth => PrintT(<<\"H\", ToJson(hist)>>)\n====")
    tlc.write_module(wd, "MC_ClassDB", simbody, simcfg)
    sim = tlc.require_ok(tlc.run_tlc(wd, "MC_ClassDB", workers=1, simulate="num=%d" % num, depth=depth + 2,
                                     seed=seed + 1, timeout=900), "MC_ClassDB simulate")
    run.add_tlc(sim, "MC_ClassDB simulate num=%d depth=%d" % (num, depth))
    if sim.status == "violated":
        run.tlc_violation(sim, "MC_ClassDB-simulate")
    seen = set()
    for h in sim.tuples("H"):
        if h[1] not in seen:
            seen.add(h[1])
            hists.append(json.loads(h[1]))
    return hists, cover


def build_traces(hists, te=("e",)):
    KC, KCB, KCM = _fixture_classes()
    traces = []
    for i, h in enumerate(hists):
        for kind, cls in (("plain", KC), ("bytes", KCB), ("mixed", KCM)):
            traces.append({"tid": "h%d-%s" % (i, kind), "te": list(te), "sig": "kind=%s" % kind,
                           "events": replay_history(h, cls, set(te))})
    return traces


def judge(run: Run, traces, label):
    v = tlc.validate_traces(run.wd, "Trace_ClassDB", traces, jvms=8, tag=label)
    run.add_verdicts(v, "Trace_ClassDB " + label)
    by = {t["tid"]: t for t in traces}

    def sig(tr, r):
        ev = tr["events"][r["event"] - 1]
        return "%s/op=%s/key=%s/ret=%s" % (tr.get("sig", ""), ev["op"], ev["kc"], ev["ret"]["k"])

    run.rejects(v, by, sig)
    return v


def run(tier: str, seed: int) -> int:
    run_ = Run("C15", tier, seed)
    hists, cover = model_histories(run_, tier, seed)
    traces = build_traces(hists)
    run_.evaluations = len(traces)
    for t in traces:
        run_.events += len(t["events"])
        # non-trivial: a history that labels >= 2 classes and asks an emptiness or membership question
        ops = {e["op"] for e in t["events"]}
        if t["events"][-1]["ret"].get("i", 0) >= 2 and ops & {"is_empty", "contains", "get_class"}:
            run_.nt(json.dumps([(e["op"], e["kc"], e["c"], e["l"]) for e in t["events"]]) + t["sig"])
    run_.sample({"trace": traces[len(traces) // 2]})
    run_.sample({"trace": traces[-1]})
    judge(run_, traces, "replayed-model-histories")
    # code -> spec: class-db traffic of real searches
    try:
        from . import search_campaign
    except ImportError:
        search_campaign = None
    if search_campaign is not None:
        straces = search_campaign.classdb_traces(tier, seed)
        for t in straces:
            run_.nt("search:" + t["tid"])
        if straces:
            run_.sample({"search_trace_head": {**straces[0], "events": straces[0]["events"][:12]}})
            judge(run_, straces, "search-traffic")
    run_.rule = ("histories = transition cover of the ClassDB.tla state graph (one shortest history per distinct "
                 "(state, call), %d of them) + TLC simulator behaviours, each replayed on a plain, a "
                 "zlib-compressed and a mixed (some instances not compressible) fixture class; non-trivial = labels >= 2 classes and queries membership/"
                 "emptiness/lookup; plus class-db traffic of real searches" % cover)
    run_.exhaustive = False
    run_.extra["transition_cover_histories"] = cover
    run_.extra["events_judged"] = run_.events
    run_.assumptions = [
        "set_empty / is_empty(class,label) are called with the class's own label and true answer (searcher contract; "
        "violations of it by the searcher show up as CachedEmptinessTruthful rejections in search traffic)",
        "keys other than classes and integers raise by design and are outside the property",
    ]
    return run_.finish()


def selftest(seed: int) -> int:
    """Binding demonstration: corrupt one recorded field / drop one state-changing event -> TLC must reject."""
    run_ = Run("C15", "quick", seed)
    KC = _fixture_classes()[0]
    h = [{"op": "get_label", "kc": "c", "c": "a", "l": 0, "b": False},
         {"op": "get_label", "kc": "c", "c": "b", "l": 0, "b": False},
         {"op": "is_empty", "kc": "c", "c": "b", "l": 0, "b": False},
         {"op": "get_class", "kc": "l", "c": "", "l": 1, "b": False}]
    good = replay_history(h, KC, {"e"})
    bad1 = json.loads(json.dumps(good))
    bad1[1]["ret"]["i"] = 0  # corrupted label
    bad2 = good[1:]  # dropped first get_label
    traces = [{"tid": "good", "te": ["e"], "events": good}, {"tid": "corrupt", "te": ["e"], "events": bad1},
              {"tid": "dropped", "te": ["e"], "events": bad2}]
    v = tlc.validate_traces(run_.wd, "Trace_ClassDB", traces, jvms=1)
    rejected = {r["tid"] for r in v.rejects}
    tlc.clean_workdir(run_.wd)
    ok = rejected == {"corrupt", "dropped"}
    print("selftest C15: rejected=%s -> %s" % (sorted(rejected), "OK" if ok else "FAILED"))
    return 0 if ok else 2


def replay(path: str, seed: int) -> int:
    d = json.load(open(path))
    tr = d["detail"].get("trace")
    if not tr:
        print(json.dumps(d, indent=1)[:4000])
        return 1
    run_ = Run("C15", "quick", seed)
    v = tlc.validate_traces(run_.wd, "Trace_ClassDB", [tr], jvms=1)
    tlc.clean_workdir(run_.wd)
    for r in v.rejects:
        print("REJECT", r, "event:", tr["events"][r["event"] - 1])
    return 1 if v.rejects else 0
