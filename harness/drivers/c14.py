"""C14 - default and memory-saving rule databases are observationally identical.

Lockstep: while a real search runs (word universe, incl. packs whose verification strategies apply
to classes other strategies could expand, foreign-parent factories, symmetries, inferral), every
rule handed to the searcher's rule database is also fed to two shadow databases - one RuleDB, one
RuleDBForgetStrategy - linked to the same class database.  After *every* insertion both shadows are
observed: stored keys, membership of stored and non-stored keys in any child order, is_verified of
every label, has_specification, and the strategy handed back for each stored key re-applied to the
class.  TLC judges each observation with Trace_RuleDB.tla: both flavours are behaviours of
RuleDB.tla and agree with each other.
"""
import json
import random

from .. import tlc
from ..common import Run, pmap
from ..session import Session
from . import search_campaign as sc


class StubQueue:
    def set_stop_yielding(self, label):
        pass


class StubSearcher:
    def __init__(self, real):
        self.classdb = real.classdb
        self.strategy_pack = real.pack
        self.start_label = 0
        self.classqueue = StubQueue()


class LockstepSession(Session):
    def __init__(self, *a, **k):
        from comb_spec_searcher.rule_db import RuleDB, RuleDBForgetStrategy

        self.shadow_d, self.shadow_f = RuleDB(), RuleDBForgetStrategy()
        self.obs = []
        self.rnd = random.Random(12345)
        self._stub = None
        super().__init__(*a, record=("search",), track_keys=False, **k)

    def _link(self):
        if self._stub is None:
            self._stub = StubSearcher(self)
            self.shadow_d.link_searcher(self._stub)
            self.shadow_f.link_searcher(self._stub)

    def after_add(self, start, ends, rule, before):
        from comb_spec_searcher.strategies.rule import VerificationRule

        self._link()
        with self.cdb_rec.paused():
            add = {"s": int(start), "e": [int(x) for x in ends], "pe": bool(rule.possibly_empty),
                   "tw": bool(rule.is_two_way()), "ver": isinstance(rule, VerificationRule)}
            errs = {}
            for name, db in (("d", self.shadow_d), ("f", self.shadow_f)):
                try:
                    db.add(start, tuple(ends), rule)
                except Exception as e:
                    errs[name] = type(e).__name__
            nl = len(self.classdb.label_to_info)
            queries = self._queries(start, ends, nl)
            self.obs.append({"add": add, "d": self._observe(self.shadow_d, queries, nl, errs.get("d")),
                             "f": self._observe(self.shadow_f, queries, nl, errs.get("f"))})

    def _queries(self, start, ends, nl):
        ends = [int(x) for x in ends]
        qs = [(start, tuple(ends)), (start, tuple(reversed(ends))), (start, ()), (start, (start,))]
        if ends:
            qs.append((ends[0], (start,)))
            qs.append((start, tuple(ends[1:])))
        qs.append((self.rnd.randrange(nl), (self.rnd.randrange(nl),)))
        qs.append((self.rnd.randrange(nl), (self.rnd.randrange(nl), self.rnd.randrange(nl))))
        return [(int(s), tuple(int(x) for x in e)) for s, e in qs]

    def _observe(self, db, queries, nl, add_err):
        def tf(f):
            try:
                return "T" if f() else "F"
            except Exception as e:
                return type(e).__name__

        o = {}
        try:
            keys = [(int(s), [int(x) for x in e]) for s, e in db]
        except Exception as e:
            keys = [(-1, [hash(type(e).__name__) % 1000])]
        o["keys"] = [{"s": s, "e": e} for s, e in sorted(set((s, tuple(e)) for s, e in keys))]
        o["contains"] = [{"s": s, "e": list(e), "ans": tf(lambda s=s, e=e: db.contains(s, e))} for s, e in queries]
        o["ver"] = []
        for lab in range(nl):
            try:
                o["ver"].append(1 if db.is_verified(lab) else 0)
            except Exception:
                o["ver"].append(-1)
        o["spec"] = add_err or tf(db.has_specification)
        o["strat"] = []
        for k in o["keys"]:
            key = (k["s"], tuple(k["e"]))
            cls = self.classdb.get_class(k["s"])
            if cls.is_empty():
                continue
            # the key may live in the store of one-way / general rules, in the store of two-way equivalences, or in both
            found = False
            for store_name, store in (("rule", db.rule_to_strategy), ("eqv", db.eqv_rule_to_strategy)):
                rec = {"s": k["s"], "e": k["e"], "got": [], "ok": False, "store": store_name, "tw": False}
                try:
                    try:
                        strat = store[key]
                    except KeyError:
                        continue
                    found = True
                    rule = strat(cls)
                    got = sorted(self.classdb.get_label(c) for c in rule.children if not (rule.possibly_empty and c.is_empty()))
                    rec.update(got=[int(x) for x in got], ok=True, tw=bool(rule.is_two_way()))
                except Exception as e:
                    found = True
                    rec["err"] = type(e).__name__
                o["strat"].append(rec)
            if not found:
                o["strat"].append({"s": k["s"], "e": k["e"], "got": [], "ok": False, "store": "none", "tw": False, "err": "KeyError"})
        return o


def run_one(cfg):
    start, pack = sc.build(cfg)
    prefix, pats, alph, st, pk, fl, sch, reverse = cfg
    s = LockstepSession(start, pack, flavour=fl, schedule=sc.SCHEDULES[sch], reverse=reverse)
    try:
        outcome, spec = s.run()
    finally:
        s.close()
    te = sorted(int(s.classdb.get_label(c)) for c in list(s.namer.objs) if c in s.classdb.label_dict and c.is_empty()) \
        if hasattr(s.classdb, "label_dict") else []
    return {"tid": sc.tid_of(cfg), "te": te, "root": 0, "iter": bool(pack.iterative), "events": s.obs,
            "outcome": outcome if outcome != "error" else "error:" + type(spec).__name__}


def judge(run: Run, traces, label):
    v = tlc.validate_traces(run.wd, "Trace_RuleDB", traces, jvms=14, tag=label, timeout=3000)
    run.add_verdicts(v, "Trace_RuleDB " + label)
    by = {t["tid"]: t for t in traces}
    run.rejects(v, by, lambda tr, r: "pack=%s" % tr["tid"].split("|")[4])
    return v


def campaign(tier, seed):
    cfgs = sc.configs(tier, seed, flavours=("default",), stats=("s0", "s2m"), max_n=(220 if tier == "quick" else 2500))
    # an involutive equivalence among the expansion strategies: the two-way rule a <-> b is followed by b <-> a (both flavours
    # must store, report and hand back both directions)
    cfgs += sc.configs(tier, seed, flavours=("default",), packs=["swapexp"], stats=("s0", "s2"), max_n=(12 if tier == "quick" else 200))
    return list(dict.fromkeys(cfgs))


def run(tier: str, seed: int) -> int:
    run_ = Run("C14", tier, seed)
    cfgs = campaign(tier, seed)
    traces = pmap(run_one, cfgs, procs=16, chunk=2)
    traces = [t for t in traces if t["events"]]
    for t in traces:
        run_.events += len(t["events"])
        if any(len(e["add"]["e"]) == 1 for e in t["events"]) and any(e["d"]["spec"] == "T" for e in t["events"]):
            run_.nt(t["tid"])
    run_.evaluations = len(traces)
    t0 = traces[0]
    run_.sample({"tid": t0["tid"], "first_observations": t0["events"][:2]})
    judge(run_, traces, "lockstep")
    run_.rule = ("one trace per search; one event per rule insertion with the full observation of both shadow databases; "
                 "non-trivial = the search inserts single-child (equivalence) rules and a specification appears")
    run_.extra["insertions_observed"] = run_.events
    run_.assumptions = ["both shadows are linked to the real class database and strategy pack of the search; calling has_specification "
                        "after every insertion is done on the shadows only, so the observed search itself is undisturbed"]
    return run_.finish()


def selftest(seed: int) -> int:
    run_ = Run("C14", "quick", seed)
    good = run_one(("", ("aa",), "ab", "s0", "plain", "default", "one", True))
    bad1 = json.loads(json.dumps(good)); bad1["tid"] = "corrupt"
    bad1["events"][-1]["f"]["ver"][0] ^= 1
    bad2 = json.loads(json.dumps(good)); bad2["tid"] = "dropped"
    del bad2["events"][1]
    good["tid"] = "good"
    v = tlc.validate_traces(run_.wd, "Trace_RuleDB", [good, bad1, bad2], jvms=1)
    rejected = {r["tid"]: r["clause"] for r in v.rejects}
    tlc.clean_workdir(run_.wd)
    ok = set(rejected) == {"corrupt", "dropped"}
    print("selftest C14: rejected=%s -> %s" % (rejected, "OK" if ok else "FAILED"))
    return 0 if ok else 2


def replay(path: str, seed: int) -> int:
    d = json.load(open(path))
    tr, r = d["detail"].get("trace"), d["detail"].get("reject")
    if tr and r:
        print(d["clause"], "event", r["event"], json.dumps(tr["events"][r["event"] - 1], indent=1)[:5000])
    return 1
