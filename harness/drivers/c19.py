"""C19 - expanding verified classes preserves the enumeration and finishes the job.

Specifications containing 1-6 strategy-verified classes whose verification strategy supplies a pack
(prefix-verified classes of the word universe; verified root; verified classes next to symmetry /
inferral equivalences; a verification pack that reaches the class only through a reverse rule),
produced by each of the three rule databases, are expanded with expand_verified().  TLC judges
(Trace_Spec: Expand.tla + SpecValid.tla + WordUniverse.tla): same start class, the expanded
specification is valid and productive (C02) and enumerates the start class (C01), no verified class
offering a pack remains, no rule object is shared with the original, and the original is unchanged
(same rule descriptors and same enumeration before and after).
"""
import json

from .. import tlc
from ..common import Run, pmap
from ..session import Session
from ..specdesc import spec_rules_desc, terms_list
from . import search_campaign as sc
from . import c02

VPACKS = {
    "pv0": dict(prefix_verified=0), "pv1": dict(prefix_verified=1), "pv2": dict(prefix_verified=2), "pv3": dict(prefix_verified=3),
    "pv1sym": dict(prefix_verified=1, sym=True), "pv2inf": dict(prefix_verified=2, inf=True), "pv2syminf": dict(prefix_verified=2, sym=True, inf=True),
    "pvrev1": dict(prefix_verified_rev=1), "pvrev2": dict(prefix_verified_rev=2), "pv2fac": dict(prefix_verified=2, factory=True),
    # the expansion of a verified class brings in further verified classes offering a pack (nested verification)
    "nest13": dict(prefix_verified_nested=(1, 3), no_initial=True), "nest12": dict(prefix_verified_nested=(1, 2), no_initial=True),
    "nest23": dict(prefix_verified_nested=(2, 3), no_initial=True),
    # the offered pack's own verification strategy verifies the *same* class again (and offers the pack that expands it): the
    # class must be expanded twice, once per verification strategy
    "nest11": dict(prefix_verified_nested=(1, 1), no_initial=True), "nest22": dict(prefix_verified_nested=(2, 2), no_initial=True),
    # the original specification already contains a reverse rule (the redundant start class is only the child of a one-way
    # rule) and the verified class needs reverse rules to be expanded
    "redparrev1": dict(redpar=True, prefix_verified_rev=1), "redparrev2": dict(redpar=True, prefix_verified_rev=2),
    "redparrev2b": dict(redpar=True, prefix_verified_rev=2, start_prefix="b"), "redparrev1ab": dict(redpar=True, prefix_verified_rev=1, start_prefix="ab"),
}


PREFIXED = {(("aab",), "redparrev2b"), (("aa",), "redparrev1ab"), (("aab",), "redparrev1ab")}


def rule_ids(spec):
    from comb_spec_searcher.strategies.rule import EquivalencePathRule

    ids = set()
    for r in spec.rules_dict.values():
        ids.add(id(r))
        if isinstance(r, EquivalencePathRule):
            ids.update(id(x) for x in r.rules)
    return ids


def digest(spec, namer, pack, offers):
    rules = spec_rules_desc(list(spec.rules_dict.values()), namer, pack, offers)
    return json.dumps([sorted(json.dumps(r, sort_keys=True) for r in rules), [terms_list(spec.get_terms(n)) for n in range(5)]])


def job(cfg):
    from ..universes import words as W
    from comb_spec_searcher.exception import InvalidOperationError
    from comb_spec_searcher.strategies.rule import VerificationRule

    pats, alph, st, vp, fl, sch = cfg
    redundant = list(pats) + ([pats[0] + pats[0][-1]] if VPACKS[vp].get("inf") or VPACKS[vp].get("redpar") else [])
    kw = dict(VPACKS[vp])
    start = W.WC(kw.pop("start_prefix", ""), redundant, alph, False, sc.STATS[st])
    if start.is_empty():
        return None
    pack = W.make_pack(**kw)
    s = Session(start, pack, flavour=fl, schedule=sc.SCHEDULES[sch], record=())
    tid = "%s|%s|%s|%s|%s|%s" % (",".join(pats), alph, st, vp, fl, sch)
    try:
        outcome, spec = s.run()
        if outcome != "spec":
            return None
        nver = len(list(spec.unexpanded_verified_classes()))
        if nver == 0:
            return None
        # the packs offered by the verification strategies also offer strategies to the expanded specification
        offers = []
        todo, seen_packs = list(pack.ver_strats), set()
        while todo:  # the offered packs may themselves contain verification strategies offering packs
            v = todo.pop()
            try:
                p2 = v.pack(start)
            except Exception:
                continue
            if repr(p2) in seen_packs:
                continue
            seen_packs.add(repr(p2))
            offers += list(p2)
            todo += list(p2.ver_strats)
        allids = [repr(x) for x in list(pack) + offers]
        before = digest(spec, s.namer, pack, offers)
        ids_before = rule_ids(spec)
        keep_alive = list(spec.rules_dict.values())
        ev = {"op": "expand", "root_old": s.namer(spec.root), "root_new": "", "with_pack": [], "shared": 0, "old_before": before,
              "old_after": "", "raised": "", "nverified": nver}
        events = [ev]
        try:
            new = spec.expand_verified()
        except Exception as e:
            ev["raised"] = type(e).__name__ + ":" + str(e)[:160]
            new = None
        ev["old_after"] = digest(spec, s.namer, pack, offers)
        if new is not None:
            ev["root_new"] = s.namer(new.root)
            for c, r in new.rules_dict.items():
                if isinstance(r, VerificationRule):
                    try:
                        r.pack()
                        ev["with_pack"].append(s.namer(c))
                    except InvalidOperationError:
                        pass
            ev["shared"] = len(rule_ids(new) & ids_before)
            root = s.namer(new.root)
            events.append({"op": "spec", "stage": "final", "root": root,
                           "rules": spec_rules_desc(list(new.rules_dict.values()), s.namer, pack, offers)})
            for n in range(6):
                try:
                    events.append({"op": "terms", "c": root, "n": n, "terms": terms_list(new.get_terms(n))})
                except Exception as e:
                    events.append({"op": "terms", "c": root, "n": n, "terms": [[[-7], 1]], "error": type(e).__name__})
        # one verified class expanded through expand_comb_class, named by its label and by an equal class object
        from comb_spec_searcher.exception import SpecificationNotFound
        target = next(iter(spec.unexpanded_verified_classes()))
        for how, arg in (("label", spec.get_label(target)), ("equal-object", target.with_())):
            ev1 = {"op": "expand_one", "how": how, "root_old": s.namer(spec.root), "root_new": "", "target": s.namer(target),
                   "target_still_verified": False, "shared": 0, "old_before": before, "old_after": "", "raised": ""}
            one = None
            try:
                tpack = spec.rules_dict[target].pack()
                try:
                    one = spec.expand_comb_class(arg, tpack, reverse=False, continue_expanding_verified=False)
                except SpecificationNotFound:
                    one = spec.expand_comb_class(arg, tpack, reverse=True, continue_expanding_verified=True)
            except Exception as e:
                ev1["raised"] = type(e).__name__ + ":" + str(e)[:160]
            ev1["old_after"] = digest(spec, s.namer, pack, offers)
            if one is not None:
                ev1["root_new"] = s.namer(one.root)
                r1 = one.rules_dict.get(target)
                # still verified *by the strategy whose pack was used*: a rule of the given pack that verifies the class through
                # another strategy (nested verification of the same class) is an expansion with that pack
                if isinstance(r1, VerificationRule) and r1.strategy == spec.rules_dict[target].strategy:
                    try:
                        r1.pack()
                        ev1["target_still_verified"] = True
                    except InvalidOperationError:
                        pass
                ev1["shared"] = len(rule_ids(one) & ids_before)
            events.append(ev1)
        tr = s.spec_trace(tid, events)
        tr["pack"] = allids
        tr["nverified"] = nver
        tr["vp"] = vp
        tr["has_reverse"] = 'reverse' in before
        return tr
    finally:
        s.close()


def run(tier: str, seed: int) -> int:
    run_ = Run("C19", tier, seed)
    pats_list = [("aa",), ("aa", "bb"), ("aba", "bb"), ("ab",), ("aab", "bba"), ("aab",)] + ([("aaa",), ("abb", "bab"), ("aabb",)] if tier == "thorough" else [])
    cfgs = []
    for pats in pats_list:
        for vp in VPACKS:
            for fl in ("default", "forget", "forest"):
                for st in (("s0", "s1") if tier == "thorough" else ("s0",)):
                    for sch in (("one", "all") if tier == "thorough" else ("mixed",)):
                        cfgs.append((pats, "ab", st, vp, fl, sch))
    # start classes with a prefix: only the pattern sets for which the offered pack can reach the verified class by design
    cfgs = [c for c in cfgs if not (VPACKS[c[3]].get("start_prefix") and (c[0], c[3]) not in PREFIXED)]
    traces = [t for t in pmap(job, cfgs, procs=16, chunk=1) if t]
    hist = {}
    for t in traces:
        run_.events += len(t["events"])
        hist[t["nverified"]] = hist.get(t["nverified"], 0) + 1
        run_.nt(t["tid"])
    run_.evaluations = len(traces)
    run_.sample({"tid": traces[0]["tid"], "expand_event": {k: (v if len(str(v)) < 300 else str(v)[:300] + "...") for k, v in traces[0]["events"][0].items()}})
    c02.judge(run_, traces, "expand")
    run_.rule = ("start classes x verification packs (verified from prefix length 0-3, with symmetry / inferral / factories, and a "
                 "verification pack needing reverse rules) x three rule databases; only specifications with >= 1 expandable verified class")
    run_.extra["originals_containing_a_reverse_rule"] = sum(1 for t in traces if t["has_reverse"])
    run_.extra["expansions_bringing_in_new_verified_classes"] = sum(1 for t in traces if t["vp"].startswith("nest"))
    run_.extra["specs_by_number_of_verified_classes"] = {str(k): v for k, v in sorted(hist.items())}
    run_.assumptions = ["the inner forest searches of expand_verified are not recorded event by event (their products are judged)"]
    return run_.finish()


def selftest(seed: int) -> int:
    run_ = Run("C19", "quick", seed)
    good = job((("aa",), "ab", "s0", "pv2", "default", "one"))
    bad1 = json.loads(json.dumps(good)); bad1["tid"] = "corrupt"
    bad1["events"][0]["shared"] = 1
    bad2 = json.loads(json.dumps(good)); bad2["tid"] = "dropped"
    del bad2["events"][1]["rules"][0]
    good["tid"] = "good"
    v = tlc.validate_traces(run_.wd, "Trace_Spec", [good, bad1, bad2], jvms=1)
    rejected = {x["tid"]: x["clause"] for x in v.rejects}
    tlc.clean_workdir(run_.wd)
    ok = set(rejected) == {"corrupt", "dropped"}
    print("selftest C19: rejected=%s -> %s" % (rejected, "OK" if ok else "FAILED"))
    return 0 if ok else 2


replay = c02.replay
