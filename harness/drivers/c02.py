"""C02 - returned specifications are closed, one-rule-per-class, genuine and productive.
C01 - a returned specification enumerates the root class correctly.   (shared driver code)

code -> spec: every specification handed back by the search campaign (word universe; three rule
databases; packs with symmetries, inferral, factories, iterative, non-atom verification; 'smallest';
scripted time-slicings; 0-3 statistics) is described rule by rule - the raw rule list before it is
folded into a dictionary and the final rules after equivalence-path grouping - and judged by TLC:
SpecValid.tla (closed / functional / genuine by re-application and form algebra / productive by the
independent least fixed point of Productivity.tla) and, for C01, the enumeration of the root against
the ground truth of WordUniverse.tla.
"""
import json

from .. import tlc
from ..common import Run
from . import search_campaign as sc


def campaign(tier, seed, stats):
    cfgs = sc.configs(tier, seed, stats=stats, max_n=(300 if tier == "quick" else 6000))
    return sc.run_campaign(cfgs, ["spec"])


def judge(run: Run, traces, label):
    v = tlc.validate_traces(run.wd, "Trace_Spec", traces, jvms=14, tag=label, timeout=3000)
    run.add_verdicts(v, "Trace_Spec " + label)
    by = {t["tid"]: t for t in traces}

    def sig(tr, r):
        parts = tr["tid"].split("|")
        return "pack=%s/flavour=%s" % (parts[4], parts[5])

    run.rejects(v, by, sig)
    return v


def split(res, keep_ops):
    traces = []
    for r in res:
        tr = dict(r["spec"])
        tr["events"] = [e for e in tr["events"] if e["op"] in keep_ops]
        if tr["events"]:
            traces.append(tr)
    return traces


def run(tier: str, seed: int, pid="C02") -> int:
    run_ = Run(pid, tier, seed)
    stats = ("s0", "s1", "s2m", "s3d") if tier == "thorough" else ("s0", "s2m")
    if pid == "C01":  # the two definitions of the ground truth must agree before it judges anything
        cfg = tlc.read_spec("MC_WordUniverse.cfg")
        if tier == "thorough":
            cfg = cfg.replace("K = 2 N = 6 MaxPatLen = 3 MaxPre = 2", "K = 2 N = 8 MaxPatLen = 3 MaxPre = 3")
        tlc.write_module(run_.wd, "MC_WordUniverse", tlc.read_spec("MC_WordUniverse.tla"), cfg)
        r = tlc.require_ok(tlc.run_tlc(run_.wd, "MC_WordUniverse", workers=16, timeout=1800), "MC_WordUniverse")
        run_.add_tlc(r, "MC_WordUniverse: brute-force truth = dynamic-programming truth")
        if r.status == "violated":
            raise tlc.MachineryError("the two ground-truth definitions disagree: " + r.out[-2000:])
    res = campaign(tier, seed, stats)
    ops = ("spec", "outcome") if pid == "C02" else ("terms", "outcome")
    traces = split(res, ops)
    outcomes = {}
    for r in res:
        outcomes[r["outcome"][:50]] = outcomes.get(r["outcome"][:50], 0) + 1
    nspec = 0
    for tr in traces:
        run_.events += len(tr["events"])
        for e in tr["events"]:
            if e["op"] == "spec":
                nspec += 1
                forms = {r["form"] for r in e["rules"]}
                if forms & {"path", "equiv", "reverse"} or len(e["rules"]) >= 5:
                    run_.nt(tr["tid"] + e["stage"] + str(nspec))
            if e["op"] == "terms" and e["n"] >= 3 and len(e["terms"]) >= 1:
                run_.nt(tr["tid"])
    run_.evaluations = len(traces)
    ex = next((t for t in traces if any(e["op"] in ("spec", "terms") for e in t["events"])), traces[0])
    e0 = next(e for e in ex["events"] if e["op"] in ("spec", "terms"))
    run_.sample({"tid": ex["tid"], "event": e0 if e0["op"] == "terms" else {**e0, "rules": e0["rules"][:3]}})
    judge(run_, traces, "campaign")
    if pid == "C01":
        # specifications chosen by TLC (every productive system of the tree universe): counts judged against TreeUniverse.tla
        from . import c12
        c12.tree_gen_traces(run_, tier, seed, ("count",))
    run_.rule = ("one trace per search of the campaign; events = the specifications handed back (auto_search result and the "
                 "'smallest' option), as raw rule list and as final rules, resp. the root's terms for n <= 6 with all parameter "
                 "values; non-trivial = a specification containing derived rule forms or >= 5 rules / an enumeration at n >= 3")
    run_.extra["events_judged"] = run_.events
    run_.extra["search_outcomes"] = outcomes
    run_.extra["specifications_judged"] = nspec
    run_.assumptions = ["the word universe's strategies honour the strategy contracts (checked against WordUniverse.tla under C09)",
                        "declared shifts are taken as given for productivity; C10 shows the counting code reads within them"]
    return run_.finish()


def selftest(seed: int, pid="C02") -> int:
    run_ = Run(pid, "quick", seed)
    cfg = ("", ("aa",), "ab", "s1", "plain", "default", "one", True)
    good = sc.run_one((cfg, ("spec",)))["spec"]
    bad1 = json.loads(json.dumps(good)); bad1["tid"] = "corrupt"
    bad2 = json.loads(json.dumps(good)); bad2["tid"] = "dropped"
    for e in bad1["events"]:
        if e["op"] == "terms" and e["n"] == 3:
            e["terms"][0][1] += 1
        if e["op"] == "spec":
            e["rules"][0]["shifts"] = [0] * len(e["rules"][0]["shifts"])
            for r in e["rules"]:
                if r["form"] == "rule" and len(r["children"]) == 2:
                    r["shifts"] = [0, 0]  # a product that claims no shift: no longer productive
    for e in bad2["events"]:
        if e["op"] == "spec":
            del e["rules"][-1]
    bad2["events"] = [e for e in bad2["events"] if not (e["op"] == "terms" and e["n"] == 0)] if pid == "C01" else bad2["events"]
    good["tid"] = "good"
    ops = ("spec",) if pid == "C02" else ("terms",)
    tr = []
    for t in (good, bad1, bad2):
        t = dict(t); t["events"] = [e for e in t["events"] if e["op"] in ops]; tr.append(t)
    v = tlc.validate_traces(run_.wd, "Trace_Spec", tr, jvms=1)
    rejected = {r["tid"]: r["clause"] for r in v.rejects}
    tlc.clean_workdir(run_.wd)
    ok = set(rejected) == ({"corrupt", "dropped"} if pid == "C02" else {"corrupt"})
    print("selftest %s: rejected=%s -> %s" % (pid, rejected, "OK" if ok else "FAILED"))
    return 0 if ok else 2


def replay(path: str, seed: int) -> int:
    d = json.load(open(path))
    tr, r = d["detail"].get("trace"), d["detail"].get("reject")
    if tr and r:
        print(d["clause"], tr["tid"], "event", r["event"], json.dumps(tr["events"][r["event"] - 1], indent=1)[:6000])
    return 1
