"""C01 - a specification returned by the searcher enumerates the root class correctly.
See c02.py (shared campaign); here the judged events are the root's terms against WordUniverse.tla."""
from . import c02


def run(tier, seed):
    return c02.run(tier, seed, pid="C01")


def selftest(seed):
    return c02.selftest(seed, pid="C01")


replay = c02.replay
