"""C06 - equivalence classes are exactly the strongly connected components.

1. TLC model-checks EquivDB.tla (abstract machine: edge sets, marks, reported partition) for every
   interleaving of two-way / one-way / mark / cycle-detection over 3 labels (complete state graph)
   and exports a transition cover; simulator behaviours over 5 labels go deeper.
2. Each history is replayed on a real EquivalenceDB; after *every* step all pairs are asked
   (equivalent, is_verified) and explanation paths are requested for equivalent pairs.
3. TLC judges each trace with Trace_EquivDB: equivalent => mutually reachable (always), the converse
   after a cycle detection with no edge since, verified iff a label of the reported class was marked,
   paths start/end right and follow recorded edges.
4. Equivalence traffic of real searches (symmetry / inferral packs) is judged the same way.
"""
import json
import random

from .. import tlc
from ..common import Run
from ..instrument import EquivRecorder


def replay_history(hist, nl):
    from comb_spec_searcher.equiv_db import EquivalenceDB

    db = EquivalenceDB()
    rec = EquivRecorder(db)
    labels = list(range(nl))
    try:
        for o in hist:
            op = o["op"]
            if op == "two":
                db.add_two_way_edge(o["a"], o["b"])
            elif op == "one":
                db.add_one_way_edge(o["a"], o["b"])
            elif op == "mark":
                db.set_verified(o["a"])
            elif op == "cc":
                db.connect_cycles()
            else:
                raise tlc.MachineryError("unknown op %r" % (o,))
            rec.observe(labels)
    finally:
        rec.close()
    return rec.events


def model_histories(run: Run, tier, seed):
    wd = run.wd
    body = tlc.read_spec("MC_EquivDB.tla")
    base = tlc.read_spec("MC_EquivDB.cfg")

    def cfg(nl, depth, mode, view):
        return (base.replace("NL = 3 MaxDepth = 40", "NL = %d MaxDepth = %d" % (nl, depth))
                .replace('EmitMode = "all"', 'EmitMode = "%s"' % mode).replace("VIEW ViewCover", "VIEW " + view))

    out = []
    # implementation-shaped layer: union-find + path-stack DFS of connect_cycles, every iteration order, refines the abstract machine
    consts = "NL = 3 MaxOps = 4" if tier == "quick" else "NL = 4 MaxOps = 5"
    tlc.write_module(wd, "MC_EquivDBAlg", tlc.read_spec("MC_EquivDBAlg.tla"), tlc.read_spec("MC_EquivDBAlg.cfg").replace("NL = 3 MaxOps = 3", consts))
    ra = tlc.require_ok(tlc.run_tlc(wd, "MC_EquivDBAlg", workers=16, timeout=3000, heap="12g"), "MC_EquivDBAlg")
    run.add_tlc(ra, "MC_EquivDBAlg (implementation-shaped connect_cycles, all iteration orders) " + consts)
    if ra.status == "violated":
        run.tlc_violation(ra, "MC_EquivDBAlg")
    # complete state graph of the abstract machine over 3 labels (invariants), no export
    tlc.write_module(wd, "MC_EquivDB", body, cfg(3, 40, "none", "ViewCheck"))
    r = tlc.require_ok(tlc.run_tlc(wd, "MC_EquivDB", workers=16, timeout=1500), "MC_EquivDB check")
    run.add_tlc(r, "MC_EquivDB complete state graph, 3 labels")
    if r.status == "violated":
        run.tlc_violation(r, "MC_EquivDB")
    # transition cover: (state, last op) pairs, to a depth bound in quick, complete in thorough
    cd = 4 if tier == "quick" else 40
    tlc.write_module(wd, "MC_EquivDB", body, cfg(3, cd, "all", "ViewCover"))
    c = tlc.require_ok(tlc.run_tlc(wd, "MC_EquivDB", workers=1, timeout=2400), "MC_EquivDB cover")
    run.add_tlc(c, "MC_EquivDB transition cover 3 labels depth<=%d" % cd)
    hs = [h[1] for h in c.tuples("H")]
    hset = set(hs)
    hists = [(3, json.loads(h)) for h in hs]
    cover = len(hists)
    # 4 labels, bounded depth, exhaustive (check + cover)
    d4 = 3 if tier == "quick" else 4
    tlc.write_module(wd, "MC_EquivDB", body, cfg(4, d4, "all", "ViewCover"))
    c4 = tlc.require_ok(tlc.run_tlc(wd, "MC_EquivDB", workers=1, timeout=2400), "MC_EquivDB cover4")
    run.add_tlc(c4, "MC_EquivDB transition cover 4 labels depth<=%d" % d4)
    if c4.status == "violated":
        run.tlc_violation(c4, "MC_EquivDB-4")
    hists += [(4, json.loads(h[1])) for h in c4.tuples("H")]
    # simulator: 5 labels, long behaviours
    num, d = (50, 16) if tier == "quick" else (3000, 26)
    tlc.write_module(wd, "MC_EquivDB", body, cfg(5, d, "final", "ViewCheck"))
    s = tlc.require_ok(tlc.run_tlc(wd, "MC_EquivDB", workers=1, simulate="num=%d" % num, depth=d + 2, seed=seed + 3,
                                   timeout=1500), "MC_EquivDB simulate")
    run.add_tlc(s, "MC_EquivDB simulate 5 labels num=%d depth=%d" % (num, d))
    if s.status == "violated":
        run.tlc_violation(s, "MC_EquivDB-simulate")
    seen = set()
    for h in s.tuples("H"):
        if h[1] not in seen:
            seen.add(h[1])
            hists.append((5, json.loads(h[1])))
    return hists, cover


def order_histories(tier, seed):
    """Order-sensitive histories the transition cover cannot contain (the abstract state forgets insertion order):
    every sequence of <= 5 operations over 3 labels (a seeded sample of them in the quick tier), and every ordering of
    4 distinct one-way edges over 4 labels, each followed by a cycle detection."""
    import itertools

    rnd = random.Random(seed + 61)
    ops3 = [{"op": "one", "a": a, "b": b} for a in range(3) for b in range(3) if a != b] + \
           [{"op": "two", "a": a, "b": b} for a in range(3) for b in range(3) if a < b] + \
           [{"op": "mark", "a": a, "b": 0} for a in range(3)] + [{"op": "cc", "a": 0, "b": 0}]
    out = []
    if tier == "thorough":
        for h in itertools.product(ops3, repeat=5):
            out.append((3, list(h)))
    else:
        for _ in range(9000):
            out.append((3, [rnd.choice(ops3) for _ in range(5)] + [{"op": "cc", "a": 0, "b": 0}]))
    edges3 = [o for o in ops3 if o["op"] == "one"]
    for k in (4, 5, 6):
        for perm in itertools.permutations(edges3, k):
            out.append((3, list(perm) + [{"op": "cc", "a": 0, "b": 0}]))
    edges4 = [{"op": "one", "a": a, "b": b} for a in range(4) for b in range(4) if a != b]
    perms4 = list(itertools.permutations(edges4, 4))
    if tier == "quick":
        perms4 = rnd.sample(perms4, 2500)
    for perm in perms4:
        out.append((4, list(perm) + [{"op": "cc", "a": 0, "b": 0}]))
    return out


def judge(run: Run, traces, label):
    v = tlc.validate_traces(run.wd, "Trace_EquivDB", traces, jvms=12, tag=label, timeout=2400)
    run.add_verdicts(v, "Trace_EquivDB " + label)
    by = {t["tid"]: t for t in traces}
    run.rejects(v, by, lambda tr, r: tr.get("sig", "replayed"))
    return v


def nontrivial(events) -> bool:
    """a history in which cycle detection merges something through a one-way edge"""
    saw_one = False
    for e in events:
        if e["op"] == "one" and e["a"] != e["b"]:
            saw_one = True
        if e["op"] == "observe" and saw_one and sum(map(sum, e["eq"])) > len(e["labels"]):
            return True
    return False


def run(tier: str, seed: int) -> int:
    run_ = Run("C06", tier, seed)
    hists, cover = model_histories(run_, tier, seed)
    hists += order_histories(tier, seed)
    # replayed and judged in chunks: the traces (an all-pairs matrix after every step) are large
    CH = 15000
    total = 0
    for lo in range(0, len(hists), CH):
        traces = []
        for i, (nl, h) in enumerate(hists[lo:lo + CH]):
            ev = replay_history(h, nl)
            traces.append({"tid": "h%d" % (lo + i), "events": ev, "sig": "replayed/labels=%d" % nl})
            run_.events += len(ev)
            if nontrivial(ev):
                run_.nt(json.dumps(h))
        if lo == 0:
            run_.sample({"history": hists[len(traces) // 2][1], "trace_tail": traces[len(traces) // 2]["events"][-3:]})
        total += len(traces)
        judge(run_, traces, "replayed-%d" % (lo // CH))
        del traces
    run_.evaluations = total
    run_.sample({"history": hists[-1][1]})
    try:
        from . import search_campaign
    except ImportError:
        search_campaign = None
    if search_campaign is not None:
        straces = search_campaign.equiv_traces(tier, seed)
        for t in straces:
            if nontrivial(t["events"]):
                run_.nt("search:" + t["tid"])
        if straces:
            run_.sample({"search_trace": straces[0]["tid"], "n_events": len(straces[0]["events"])})
            judge(run_, straces, "search")
    run_.rule = ("histories = transition cover of the EquivDB.tla state graph over 3 labels (%d) and over 4 labels to a depth "
                 "bound + simulator behaviours over 5 labels; all pairs queried after every step; non-trivial = a one-way "
                 "edge was added and some distinct labels are reported equivalent; plus equivalence traffic of searches" % cover)
    run_.extra["events_judged"] = run_.events
    run_.assumptions = ["exactness is demanded only after a cycle detection with no edge added since (the property's "
                        "'queries after every step that follows a cycle detection'); soundness in every state"]
    return run_.finish()


def selftest(seed: int) -> int:
    run_ = Run("C06", "quick", seed)
    h = [{"op": "one", "a": 0, "b": 1}, {"op": "one", "a": 1, "b": 0}, {"op": "mark", "a": 1}, {"op": "cc", "a": 0, "b": 0}]
    good = replay_history(h, 3)
    bad1 = json.loads(json.dumps(good))
    obs = [e for e in bad1 if e["op"] == "observe"][-1]
    obs["eq"][0][2] = obs["eq"][2][0] = 1  # claims 0 ~ 2
    bad2 = [e for e in good if not (e["op"] == "one" and e["a"] == 1)]  # dropped the closing edge
    traces = [{"tid": "good", "events": good}, {"tid": "corrupt", "events": bad1}, {"tid": "dropped", "events": bad2}]
    v = tlc.validate_traces(run_.wd, "Trace_EquivDB", traces, jvms=1)
    rejected = {r["tid"]: r["clause"] for r in v.rejects}
    tlc.clean_workdir(run_.wd)
    ok = set(rejected) == {"corrupt", "dropped"}
    print("selftest C06: rejected=%s -> %s" % (rejected, "OK" if ok else "FAILED"))
    return 0 if ok else 2


def replay(path: str, seed: int) -> int:
    d = json.load(open(path))
    print(json.dumps(d, indent=1)[:6000])
    return 1
