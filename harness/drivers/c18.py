"""C18 - JSON round trips preserve specifications, rules, packs, strategies, bijections.

Serial.tla fixes the wire format of every rule form and TLC proves Dec(Enc(r)) = r on all rule trees
of depth <= 3 (MC_Serial).  For every specification of the search campaign (all rule forms: plain,
verification, equivalence, equivalence path, reverse - forest searches needing reverse rules
included), every rule of it and every rule nested in it, the emitted dictionary is projected and
TLC checks that it is Enc(form tree), has exactly the keys of its form, decodes to the same tree,
that the reloaded object has the same form tree and that == holds; the reloaded specification's
enumeration is judged against the ground truth (Trace_Spec); packs round-trip slot by slot; strategy
equality is compared with `kind and settings` for instances created directly, through a generic
alias, by from_dict, by copy and by pickle.  Bijections (also between specifications that match only up to
unrolling a recursion) are dumped, reloaded and compared with the original on all objects up to size 5.
"""
import copy
import json
import pickle

from .. import tlc
from ..common import Run, pmap
from ..session import Session
from ..specdesc import terms_list
from . import search_campaign as sc
from . import c02


def serial_desc(rule, namer):
    from comb_spec_searcher.strategies.rule import EquivalencePathRule, EquivalenceRule, ReverseRule, VerificationRule

    d = {"form": "rule", "parent": namer(rule.comb_class), "children": [namer(c) for c in rule.children], "strat": repr(rule.strategy),
         "idx": 0, "orig": [], "rules": []}
    if isinstance(rule, EquivalencePathRule):
        d["form"], d["rules"] = "path", [serial_desc(r, namer) for r in rule.rules]
    elif isinstance(rule, EquivalenceRule):
        d["form"], d["orig"] = "equiv", [serial_desc(rule.original_rule, namer)]
    elif isinstance(rule, ReverseRule):
        d["form"], d["idx"], d["orig"] = "reverse", int(rule.idx), [serial_desc(rule.original_rule, namer)]
    elif isinstance(rule, VerificationRule):
        d["form"], d["children"] = "verification", []
    return d


def project_wire(j, namer):
    """the emitted dictionary with class / strategy sub-dictionaries replaced by the names of what they decode to"""
    from comb_spec_searcher import CombinatorialClass
    from comb_spec_searcher.strategies.strategy import AbstractStrategy

    out = {}
    for k, v in j.items():
        if k == "class_module":
            continue
        if k == "comb_class":
            out[k] = namer(CombinatorialClass.from_dict(copy.deepcopy(v)))
        elif k == "children":
            out[k] = [namer(CombinatorialClass.from_dict(copy.deepcopy(c))) for c in v]
        elif k == "strategy":
            out[k] = repr(AbstractStrategy.from_dict(copy.deepcopy(v)))
        elif k == "original_rule":
            out[k] = project_wire(v, namer)
        elif k == "rules":
            out[k] = [project_wire(r, namer) for r in v]
        else:
            out[k] = v
    return out


def all_rules(spec):
    from comb_spec_searcher.strategies.rule import EquivalencePathRule, EquivalenceRule, ReverseRule

    seen = []

    def rec(r):
        seen.append(r)
        if isinstance(r, EquivalencePathRule):
            for x in r.rules:
                rec(x)
        elif isinstance(r, (EquivalenceRule, ReverseRule)):
            rec(r.original_rule)

    for r in spec.rules_dict.values():
        rec(r)
    return seen


def tf(f):
    try:
        return "T" if f() else "F"
    except Exception as e:
        return type(e).__name__


def rule_event(rule, namer):
    from comb_spec_searcher.strategies.rule import AbstractRule

    desc = serial_desc(rule, namer)
    try:
        j = json.loads(json.dumps(rule.to_jsonable()))
        wire, keys = project_wire(j, namer), sorted(j.keys())
        re = AbstractRule.from_dict(copy.deepcopy(j))
        redesc = serial_desc(re, namer)
        eq = tf(lambda: re == rule)
    except Exception as e:
        wire, keys, redesc, eq = {"rule_class": "error:" + type(e).__name__}, [], desc, type(e).__name__
    return {"op": "rule", "desc": desc, "wire": wire, "keys": keys, "redesc": redesc, "eq": eq}


def spec_job(cfg):
    from comb_spec_searcher import CombinatorialSpecification

    start, pack = sc.build(cfg)
    prefix, pats, alph, st, pk, fl, sch, reverse = cfg
    if prefix:
        start = start.with_(prefix=prefix)
    s = Session(start, pack, flavour=fl, schedule=sc.SCHEDULES[sch], reverse=reverse, record=())
    try:
        outcome, spec = s.run()
        if outcome != "spec":
            return None
        namer = s.namer
        events = []
        for r in all_rules(spec):
            events.append(rule_event(r, namer))
        descs = [serial_desc(r, namer) for r in spec.rules_dict.values()]
        tevents = []
        try:
            spec2 = CombinatorialSpecification.from_dict(json.loads(json.dumps(spec.to_jsonable())))
            redescs = [serial_desc(r, namer) for r in spec2.rules_dict.values()]
            eq = tf(lambda: spec2 == spec)
            root = namer(spec2.root)
            for n in range(6):
                try:
                    tevents.append({"op": "terms", "c": root, "n": n, "terms": terms_list(spec2.get_terms(n))})
                except Exception as e:
                    tevents.append({"op": "terms", "c": root, "n": n, "terms": [[[-7], 1]], "error": type(e).__name__})
        except Exception as e:
            redescs, eq = [], type(e).__name__ + ":" + str(e)[:100]
        events.append({"op": "spec", "descs": descs, "redescs": redescs, "eq": eq})
        # the same round trip after the original was *used* (counted, which makes verification strategies with a pack of their
        # own search for their specification): equality must not depend on the history of the objects compared
        try:
            from ..session import scripted_time
            import random as _random

            _random.seed(len(descs))
            with scripted_time():
                for n in range(5):
                    try:
                        spec.count_objects_of_size(n)
                    except Exception:
                        break
            for r in list(spec.rules_dict.values())[:12]:
                events.append(rule_event(r, namer))
            spec3 = CombinatorialSpecification.from_dict(json.loads(json.dumps(spec.to_jsonable())))
            events.append({"op": "spec", "descs": [serial_desc(r, namer) for r in spec.rules_dict.values()],
                           "redescs": [serial_desc(r, namer) for r in spec3.rules_dict.values()], "eq": tf(lambda: spec3 == spec)})
        except Exception as e:
            events.append({"op": "spec", "descs": descs, "redescs": [], "eq": type(e).__name__ + ":" + str(e)[:100]})
        tid = sc.tid_of(cfg) + "|" + prefix
        ne = [n for c, n in namer.names.items() if not c.is_empty()]
        forms = sorted({e["desc"]["form"] for e in events if e["op"] == "rule"})
        return {"serial": {"tid": tid, "ne": ne, "events": events, "sig": "flavour=%s" % fl}, "spec": s.spec_trace(tid, tevents), "forms": forms}
    finally:
        s.close()


def misc_trace():
    """packs and strategy equality"""
    from ..universes import words as W
    from comb_spec_searcher import StrategyPack
    from comb_spec_searcher.strategies.strategy import AbstractStrategy, EmptyStrategy

    events = []

    def slots(p):
        return {"initial": [repr(x) for x in p.initial_strats], "inferral": [repr(x) for x in p.inferral_strats],
                "expansion": [[repr(x) for x in g] for g in p.expansion_strats], "ver": [repr(x) for x in p.ver_strats],
                "sym": [repr(x) for x in p.symmetries], "iterative": bool(p.iterative), "name": p.name}

    for kw in list(sc.PACKS.values()) + [dict(prefix_verified=3, sym=True), dict(prefix_verified_rev=1)]:
        p = W.make_pack(**kw)
        try:
            p2 = StrategyPack.from_dict(json.loads(json.dumps(p.to_jsonable())))
            events.append({"op": "pack", "slots": slots(p), "reslots": slots(p2), "eq": tf(lambda: p2 == p)})
        except Exception as e:
            events.append({"op": "pack", "slots": slots(p), "reslots": {}, "eq": type(e).__name__})

    def ks(s):
        j = s.to_jsonable()
        kind = j.pop("class_module") + "." + j.pop("strategy_class")
        return {"kind": kind, "settings": json.dumps(j, sort_keys=True)}

    makers = [("Expand", lambda: W.Expand(), lambda: W.Expand[W.WC, W.W]()),
              ("RemoveFront", lambda: W.RemoveFront(), lambda: W.RemoveFront[W.WC, W.W]()),
              ("WAtom", lambda: W.WAtom(), lambda: W.WAtom[W.WC, W.W]()),
              ("PrefixVerified", lambda: W.PrefixVerified(2), lambda: W.PrefixVerified[W.WC, W.W](2)),
              ("EmptyStrategy", lambda: EmptyStrategy(), lambda: EmptyStrategy[W.WC, W.W]()),
              ("MinimizePatterns", lambda: W.MinimizePatterns(), lambda: W.MinimizePatterns[W.WC, W.W]()),
              ("GenericVerified", lambda: W.GenericVerified(3), lambda: W.GenericVerified[W.WC, W.W](3))]
    for name, direct, alias in makers:
        a = direct()
        others = [("direct", direct), ("alias", alias), ("from_dict", lambda: AbstractStrategy.from_dict(json.loads(json.dumps(a.to_jsonable())))),
                  ("copy", lambda: copy.copy(a)), ("deepcopy", lambda: copy.deepcopy(a)), ("pickle", lambda: pickle.loads(pickle.dumps(a))),
                  ("alias-from_dict", lambda: AbstractStrategy.from_dict(json.loads(json.dumps(alias().to_jsonable()))))]
        for how, mk in others:
            try:
                b = mk()
            except TypeError:
                continue  # this fixture strategy is not a generic class: it has no parametrised alias
            try:
                events.append({"op": "strategy", "name": name, "how": how, "a": ks(a), "b": ks(b), "eq": tf(lambda: a == b)})
                events.append({"op": "strategy", "name": name, "how": how + "-sym", "a": ks(b), "b": ks(a), "eq": tf(lambda: b == a)})
            except Exception as e:
                events.append({"op": "strategy", "name": name, "how": how, "a": ks(a), "b": ks(a), "eq": type(e).__name__})
    # different settings / kinds are unequal
    pairs = [(W.PrefixVerified(1), W.PrefixVerified(2)), (W.Expand(), W.Expand(ignore_parent=True)), (W.Expand(), W.ExpandFactory()),
             (W.Expand(), W.RemoveFront()), (W.WAtom(), W.WAtom(ignore_parent=False))]
    for a, b in pairs:
        try:
            events.append({"op": "strategy", "name": type(a).__name__, "how": "different", "a": ks(a), "b": ks(b), "eq": tf(lambda: a == b)})
        except Exception as e:
            pass
    return events


def run(tier: str, seed: int) -> int:
    run_ = Run("C18", tier, seed)
    tlc.write_module(run_.wd, "MC_Serial", tlc.read_spec("MC_Serial.tla"), tlc.read_spec("MC_Serial.cfg"))
    r = tlc.require_ok(tlc.run_tlc(run_.wd, "MC_Serial", workers=8, timeout=900), "MC_Serial")
    run_.add_tlc(r, "MC_Serial: Dec(Enc(r)) = r and key sets, all rule trees of depth <= 3")
    if r.status == "violated":
        run_.tlc_violation(r, "MC_Serial")
    cfgs = sc.configs(tier, seed, stats=("s0", "s2m"), max_n=(150 if tier == "quick" else 2500))
    for pats in (("aa",), ("aa", "bb"), ("aba",)):
        for sch in ("one", "all"):
            cfgs.append(("a", pats, "ab", "s0", "needrev", "forest", sch, True))
    # verification strategies that count through a pack of their own (their state after use must not show in equality)
    for pats in (("aa",), ("aba", "bb"), ("aab",)):
        for pk, fl in (("pv2", "default"), ("pvpack", "default"), ("pvpack", "forest"), ("plain", "default")):
            cfgs.append(("", pats, "ab", "s0", pk, fl, "all", True))
    cfgs = list(dict.fromkeys(cfgs))
    res = [x for x in pmap(spec_job, cfgs, procs=16, chunk=2) if x]
    serial = [x["serial"] for x in res]
    specs = [x["spec"] for x in res]
    forms = {}
    for x in res:
        run_.events += len(x["serial"]["events"])
        for f in x["forms"]:
            forms[f] = forms.get(f, 0) + 1
        if len(x["forms"]) >= 3:
            run_.nt(x["serial"]["tid"])
    misc = misc_trace()
    # every strategy-equality / pack event in a trace of its own (a finding must not mask the others)
    for i, e in enumerate(misc):
        serial.append({"tid": "misc-%d-%s-%s" % (i, e["op"], e.get("name", "") + ":" + e.get("how", "")), "ne": [], "events": [e],
                       "sig": "%s/%s" % (e["op"], e.get("how", ""))})
        run_.nt("misc%d" % i)
    run_.evaluations = len(serial)
    run_.sample({"tid": serial[0]["tid"], "rule_event": serial[0]["events"][0]})
    v = tlc.validate_traces(run_.wd, "Trace_Serial", serial, jvms=14, tag="serial", timeout=3000)
    run_.add_verdicts(v, "Trace_Serial")
    by = {t["tid"]: t for t in serial}

    def sig(tr, rj):
        e = tr["events"][rj["event"] - 1]
        if e["op"] == "rule":
            return "rule/form=%s" % e["desc"]["form"]
        if e["op"] == "strategy":
            return "strategy/%s/%s" % (e["name"], e["how"].replace("-sym", ""))
        return e["op"]

    run_.rejects(v, by, sig)
    vs = tlc.validate_traces(run_.wd, "Trace_Spec", specs, jvms=14, tag="reloaded", timeout=3000)
    run_.add_verdicts(vs, "Trace_Spec (enumeration of the reloaded specification)")
    run_.rejects(vs, {t["tid"]: t for t in specs}, lambda tr, rj: "reloaded-spec-terms")
    # bijections: dumped, reloaded, and compared with the original on every object up to size 5 (both directions)
    from . import c12
    bpairs = c12.unroll_pairs() + [((a[0], a[1], "default"), (b[0], b[1], "default")) for a, b in c12.two3_pairs()[: (10 if tier == "quick" else 200)]]
    bpairs += [((c12.STARTS[i], pk1, "default"), (c12.STARTS[j], pk2, "default")) for i, j in ((0, 1), (2, 3), (4, 5), (7, 8), (11, 10), (12, 13), (18, 19), (0, 0), (6, 6), (14, 15), (16, 6))
               for pk1 in ("plain", "syminf") for pk2 in ("plain", "inf")]
    bres = [r for r in pmap(c12.pair_job, bpairs, procs=16, chunk=2) if r and any(e["op"] == "reload" for e in r["events"])]
    btr = [{"tid": "bij:" + r["tid"], "classes": r["classes"], "events": [e for e in r["events"] if e["op"] == "reload"], "sig": "bijection-reload"} for r in bres]
    btr = list({t["tid"]: t for t in btr}.values())
    for t in btr:
        run_.nt(t["tid"])
    run_.events += len(btr)
    run_.extra["bijections_reloaded"] = len(btr)
    if btr:
        vb = tlc.validate_traces(run_.wd, "Trace_Iso", btr, jvms=8, tag="bij-reload", timeout=3000)
        run_.add_verdicts(vb, "Trace_Iso (reloaded bijections map like the originals)")
        run_.rejects(vb, {t["tid"]: t for t in btr}, lambda tr, rj: "bijection-reload")
    run_.rule = ("bijections between mirror / unrolled / three-letter pairs dumped and reloaded; every rule (nested ones included) of every campaign specification, the specification itself, 14 packs, strategy "
                 "equality for 6 strategy kinds x 7 ways of obtaining an equal instance + unequal pairs; non-trivial = a "
                 "specification with >= 3 rule forms, each pack / strategy event")
    run_.extra["rule_forms_seen"] = forms
    run_.assumptions = ["byte-level fidelity of a user class's to_jsonable/from_dict is an input contract; decided here: wire format, "
                        "form algebra, equality semantics, behaviour of the reloaded object"]
    return run_.finish()


def selftest(seed: int) -> int:
    run_ = Run("C18", "quick", seed)
    x = spec_job(("", ("aa", "aab"), "ab", "s0", "syminf", "default", "one", True))
    good = x["serial"]
    bad1 = json.loads(json.dumps(good)); bad1["tid"] = "corrupt"
    e = next(e for e in bad1["events"] if e["op"] == "rule" and e["desc"]["form"] == "rule" and len(e["desc"]["children"]) >= 2)
    e["wire"]["children"] = list(reversed(e["wire"]["children"]))
    bad2 = json.loads(json.dumps(good)); bad2["tid"] = "dropped"
    e = next(e for e in bad2["events"] if e["op"] == "rule")
    e["keys"] = e["keys"][:-1]
    good["tid"] = "good"
    v = tlc.validate_traces(run_.wd, "Trace_Serial", [good, bad1, bad2], jvms=1)
    rejected = {r["tid"]: r["clause"] for r in v.rejects}
    tlc.clean_workdir(run_.wd)
    ok = set(rejected) == {"corrupt", "dropped"}
    print("selftest C18: rejected=%s -> %s" % (rejected, "OK" if ok else "FAILED"))
    return 0 if ok else 2


replay = c02.replay
