"""An enumerating 'random' source: every finite decision a function takes is scripted, and all
scripts are enumerated (odometer over the decision tree), so 'for all random choices' is discharged
by enumeration instead of sampling."""
import math
from typing import Callable, Iterator, List, Tuple


class Decider:
    def __init__(self):
        self.script: List[int] = []
        self.arity: List[int] = []
        self.pos = 0

    def decide(self, n: int) -> int:
        if n <= 0:
            raise IndexError("choice from an empty sequence")
        if self.pos < len(self.script):
            v = self.script[self.pos]
            self.arity[self.pos] = n
        else:
            v = 0
            self.script.append(0)
            self.arity.append(n)
        self.pos += 1
        return v if v < n else n - 1

    # the random-module functions the library imports
    def choice(self, seq):
        seq = list(seq)
        return seq[self.decide(len(seq))]

    def shuffle(self, lst):
        n = len(lst)
        idx = self.decide(math.factorial(n)) if n > 1 else 0
        items = list(lst)
        out = []
        for k in range(n, 0, -1):
            f = math.factorial(k - 1)
            out.append(items.pop(idx // f))
            idx %= f
        lst[:] = out

    def randint(self, a, b):
        return a + self.decide(b - a + 1)

    def advance(self) -> bool:
        """Move to the next script; False when the decision tree is exhausted."""
        self.script = self.script[: self.pos]
        self.arity = self.arity[: self.pos]
        while self.script:
            if self.script[-1] + 1 < self.arity[-1]:
                self.script[-1] += 1
                self.pos = 0
                return True
            self.script.pop()
            self.arity.pop()
        self.pos = 0
        return False


def all_runs(fn: Callable[[Decider], object], limit: int = 1000) -> Iterator[Tuple[List[int], object]]:
    d = Decider()
    n = 0
    while True:
        d.pos = 0
        res = fn(d)
        yield list(d.script[: d.pos]), res
        n += 1
        if n >= limit or not d.advance():
            return
