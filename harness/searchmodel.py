"""Binding of Search.tla (the model of the whole expand / check loop) to the real searcher.

For a recorded search over the word universe with the README-shaped pack (one initial strategy
RemoveFront, one expansion set {Expand}, atom verification) the universe table U is extracted from the
classes the search touched, the loop trace (every queue hand-out with what happened to it, every
specification check with its answer) is validated by TLC against Search.tla (Trace_SearchLoop), and TLC
explores *every* time-slicing of that universe (MC_Search): rule faithfulness, injective labels,
truthful emptiness cache, skipped packets are verified, and the slicing theorem (a specification is found
exactly when the check-free reference run has one at exhaustion)."""
import json
import os
from typing import Dict, List

from . import tlc


def tla_bool(b):
    return "TRUE" if b else "FALSE"


def tla_seq(xs):
    return "<<" + ", ".join(str(x) if not (isinstance(x, int) and x < 0) else "(0 - %d)" % -x for x in xs) + ">>"


def supported_pack(pack) -> bool:
    """The pack shape Search.tla models: inferral and symmetry strategies are plain strategies; the others may be factories."""
    from comb_spec_searcher.strategies.strategy import AbstractStrategy

    return all(isinstance(x, AbstractStrategy) for x in list(pack.inferral_strats) + list(pack.symmetries) + list(pack.ver_strats))


def rules_of(st, c):
    """The rules a strategy / strategy factory yields for class c (the fixture's side of _rules_from_strategy)."""
    from comb_spec_searcher.strategies.strategy import AbstractStrategy, StrategyFactory
    from comb_spec_searcher.strategies.rule import AbstractRule
    from comb_spec_searcher.exception import StrategyDoesNotApply

    out = []
    if isinstance(st, AbstractStrategy):
        if st.decomposition_function(c) is not None:
            out.append(st(c))
    elif isinstance(st, StrategyFactory):
        for x in st(c):
            if isinstance(x, AbstractRule):
                out.append(x)
            elif x.decomposition_function(c) is not None:
                out.append(x(c))
    return out


def extract(session) -> Dict:
    """Universe table of a finished session (classes the class database holds + their children), read off the pack."""
    db = session.classdb
    pack = session.pack
    ids: Dict = {}

    def cid(c):
        if c not in ids:
            ids[c] = len(ids)
        return ids[c]

    with session.cdb_rec.paused():
        classes = [db.get_class(l) for l in range(len(db.label_to_info))]
    for c in classes:
        cid(c)

    def slot(st, c):
        out = []
        for rule in rules_of(st, c):
            stg = rule.strategy
            out.append({"par": cid(rule.comb_class), "ch": [cid(x) for x in rule.children], "pe": stg.possibly_empty, "ip": stg.ignore_parent,
                        "wk": stg.workable, "tw": stg.is_two_way(rule.comb_class), "rv": bool(rule.is_reversible()), "sh": [int(x) for x in rule.shifts()], "nf": stg.inferrable})
        return out

    init_strats = list(pack.initial_strats)
    exp_sets = [list(x) for x in pack.expansion_strats]
    inf_strats = list(pack.inferral_strats)
    sym_strats = list(pack.symmetries)
    initial, expand, inferral, symm = {}, {}, {}, {}
    for table, strats in ((initial, init_strats), (inferral, inf_strats), (symm, sym_strats)):
        for c in classes:
            sl = [slot(st, c) for st in strats]
            if any(sl):
                table[cid(c)] = sl
    for c in classes:
        sets = [[slot(st, c) for st in es] for es in exp_sets]
        if any(any(x) for x in sets):
            expand[cid(c)] = sets
    empty = sorted(i for c, i in ids.items() if c.is_empty())
    verified = sorted(i for c, i in ids.items() if not c.is_empty() and any(v.verified(c) for v in pack.ver_strats))
    return {"start": 0, "empty": empty, "verified": verified, "initial": initial, "expand": expand, "inferral": inferral, "symm": symm,
            "n": len(ids), "ninf": len(inf_strats), "nsym": len(sym_strats), "ninit": len(init_strats), "nexps": [len(x) for x in exp_sets],
            "iterative": bool(pack.iterative), "flavour": "forest" if session.flavour == "forest" else "base",
            "reverse": bool(session.flavour == "forest" and session.ruledb.reverse)}


def universe_tla(u) -> str:
    def rule(r):
        return "R(%d, %s, %s, %s, %s, %s, %s, %s, %s)" % (r["par"], tla_seq(r["ch"]), tla_bool(r["pe"]), tla_bool(r["ip"]), tla_bool(r["wk"]), tla_bool(r["tw"]),
                                                          tla_bool(r.get("rv", False)), tla_seq(r["sh"]), tla_bool(r.get("nf", True)))

    def slot(sl):
        return "<<" + ", ".join(rule(r) for r in sl) + ">>"

    def fn(m, render):
        if not m:
            return "<<>>"
        return "(" + " @@ ".join("%d :> %s" % (int(k), render(v)) for k, v in sorted(m.items(), key=lambda kv: int(kv[0]))) + ")"

    slots = lambda v: "<<" + ", ".join(slot(x) for x in v) + ">>"  # noqa: E731
    sets = lambda v: "<<" + ", ".join(slots(x) for x in v) + ">>"  # noqa: E731
    return ("[start |-> 0, empty |-> {%s}, verified |-> {%s}, ninf |-> %d, ninit |-> %d, nexps |-> %s, nsym |-> %d, flavour |-> \"%s\", reverse |-> %s, iterative |-> %s, "
            "inferral |-> %s, symm |-> %s, initial |-> %s, expand |-> %s]") % (
        ", ".join(map(str, u["empty"])), ", ".join(map(str, u["verified"])), u.get("ninf", 0), u["ninit"], tla_seq(u["nexps"]), u.get("nsym", 0), u["flavour"],
        tla_bool(u.get("reverse", False)), tla_bool(u.get("iterative", False)), fn(u.get("inferral", {}), slots), fn(u.get("symm", {}), slots), fn(u["initial"], slots), fn(u["expand"], sets))


def loop_events(session) -> List[dict]:
    """The unified loop log: queue hand-outs (expanded / skipped / stop) and checks, in real order."""
    nexts = [e for e in session.ev["queue"] if e["op"] == "next"]
    expanded = [p["p"] for p in session.packets]
    checks = list(session.check_points)
    out = []
    ei = 0
    ci = 0
    # number of stored keys / labels after each hand-out is recorded by the session hooks (see run_model_session)
    for n, e in enumerate(nexts):
        while ci < len(checks) and checks[ci][0] <= n:
            out.append({"op": "check", "ans": checks[ci][1]})
            ci += 1
        r = e["ret"]
        if r["k"] == "stop":
            kind = "stop"
        elif ei < len(expanded) and expanded[ei] == r:
            kind = "expand"
            ei += 1
        else:
            kind = "skip"
        out.append({"op": "packet", "l": r["l"], "k": r["k"], "s": r.get("s", 0), "i": r.get("i", 0), "kind": kind, "nrules": session.sizes[n][0], "nlabels": session.sizes[n][1]})
    while ci < len(checks):
        out.append({"op": "check", "ans": checks[ci][1]})
        ci += 1
    return out


def _recorded_loop(s, fl, universe=None):
    """Run a session with the sizes (stored keys, labels) after every queue hand-out recorded; returns (outcome, universe, events).
    The universe is extracted from the pack unless one is given (table universes: the generated table itself)."""
    s.sizes = []
    # sizes after every queue hand-out: wrap the recorder's event sink
    orig_ev = s.q_rec._ev

    def _ev(op, a, ret):
        orig_ev(op, a, ret)
        if op == "next":
            s.sizes.append(None)

    s.q_rec._ev = _ev
    # the sizes *after the packet was processed* are read when the next hand-out (or check) starts: patch on_packet / hooks
    orig_next_hook = s.q_rec._call

    def fill():
        with s.cdb_rec.paused():
            if fl == "forest":
                nk = len({(k.parent, k.children, k.shifts) for k in s.ruledb.table_method._rules})
            else:
                nk = len(set(s.ruledb))
            val = (nk, len(s.classdb.label_to_info))
        for i in range(len(s.sizes)):
            if s.sizes[i] is None:
                s.sizes[i] = val

    def _call(name, a, k):
        if name == "__next__":
            fill()
        return orig_next_hook(name, a, k)

    s.q_rec._call = _call
    orig_before = s.before_hasspec

    def before_hasspec():
        fill()
        orig_before()

    s.before_hasspec = before_hasspec
    try:
        try:
            outcome, spec = s.run()
        except BaseException as e:  # the time budget of a table session (raised from a signal handler): the loop so far is judged
            if type(e).__name__ != "_Late":
                raise
            outcome = "time-budget"
        fill()
        u = universe if universe is not None else extract(s)
        events = loop_events(s)
    finally:
        s.close()
    return outcome, u, events


def run_model_session(cfg):
    """Worker: a recorded plain-pack search; returns the universe, the loop trace."""
    from .drivers import search_campaign as sc
    from .session import Session
    from . import instrument as ins

    start, pack = sc.build(cfg)
    prefix, pats, alph, st, pk, fl, sch, reverse = cfg
    if not supported_pack(pack):
        raise tlc.MachineryError("pack %s is outside the pack shape of Search.tla" % pk)
    s = Session(start, pack, flavour=fl, schedule=sc.SCHEDULES[sch], reverse=reverse, record=("queue",))
    outcome, u, events = _recorded_loop(s, fl)
    tid = sc.tid_of(cfg) + ("" if reverse or fl != "forest" else "|norev")
    return {"tid": tid, "universe": u, "events": events, "outcome": outcome, "sig": "pack=%s/flavour=%s" % (pk, fl)}


def validate_loop(run, job, idx):
    """One TLC run of Trace_SearchLoop for one recorded search."""
    v = tlc.validate_traces(run.wd, "Trace_SearchLoop", [{"tid": job["tid"], "events": job["events"]}], jvms=1,
                            tag="loop-%s" % idx, subst={"UNIVERSE": universe_tla(job["universe"])}, timeout=900)
    return v


def model_check_universe(run, u, idx, max_checks=5):
    wd = os.path.join(run.wd, "mcsearch-%d" % idx)
    os.makedirs(wd, exist_ok=True)
    body = tlc.substitute(tlc.read_spec("MC_Search.tla"), {"UNIVERSE": universe_tla(u), "MAXCHECKS": str(max_checks)})
    tlc.write_module(wd, "MC_Search", body, tlc.read_spec("MC_Search.cfg"))
    return tlc.run_tlc(wd, "MC_Search", workers=4, timeout=1200, heap="4g")


MODEL_PACKS = ["two", "split", "lazy", "trim", "mono", "inf", "sym", "syminf", "merge", "rename", "trimsym", "oneway", "onewaysym", "noinf", "hidden",
               "trimonly", "trimrename", "factory", "pfactory", "pfactory2", "fac2", "twosets", "noinit", "iter", "itersyminf", "pv2", "redpar"]
PATTERNS_Q = [("aa",), ("aba", "bb"), ("ab",), ("aa", "aab"), ("abba",), ("aab", "bba"), ("aa", "bb"), ("b",)]
PATTERNS_T = PATTERNS_Q + [("aaa",), ("abb", "bab"), ("aabb",), ("abab",), ("a", "aaa"), ("ab", "ba"), ("aaa", "aba", "bb")]


def campaign(run, tier, seed, want_mc=True, focus=None):
    """Loop conformance of recorded searches against Search.tla + all time-slicings of their universes.
    Returns (number of loop traces accepted, rejected list, number of universes model-checked)."""
    import concurrent.futures
    from .common import pmap
    from .drivers import search_campaign as sc

    pats = PATTERNS_Q if tier == "quick" else PATTERNS_T
    cfgs = [("", p, "ab", "s0", "plain", fl, sch, True) for p in pats for fl in ("default", "forget") for sch in ("one", "three", "all", "mixed")]
    # several strategies per class, inferral strategies, symmetries, and the forest flavour (where a class may become verified
    # by one of its own earlier packets)
    n = 0
    for pk in MODEL_PACKS:
        for p in pats[: (3 if tier == "quick" else 8)]:
            for fl, rev in (("default", True), ("forest", True), ("forest", False)):
                if fl != "forest" and sc.PACKS[pk].get("lazy"):
                    continue
                if fl == "forest" and sc.PACKS[pk].get("iterative"):
                    continue
                if tier == "quick" and not rev and n % 3:
                    continue
                scheds = ("one", "three", "all", "mixed")
                for sch in ((scheds[n % 4],) if tier == "quick" else (scheds[n % 4], scheds[(n + 2) % 4])):
                    cfgs.append(("", p, "ab", sc.PACK_STATS.get(pk, "s0"), pk, fl, sch, rev))
                n += 1
    # a pack in which the start class is only reachable through a foreign-parent rule / a reverse rule
    for p in (("aa",), ("aa", "bb"), ("aba",), ("aab",)):
        for fl in ("default", "forest"):
            cfgs.append(("a", p, "ab", "s0", "needrev", fl, "one" if fl == "default" else "mixed", True))
    cfgs += [("", p, "ab", "s0", "plain", "forest", sch, rev) for p in pats for sch, rev in (("one", True), ("all", False))]
    cfgs = list(dict.fromkeys(cfgs))
    if focus == "resume" and tier == "quick":
        # C17's share of the campaign: the README pack, and the searches in which a class can become verified between two of
        # its own packets (forest database, several strategies per class); C04 validates the whole grid
        cfgs = [c for c in cfgs if c[4] == "plain" or (c[5] == "forest" and c[4] in ("two", "split", "lazy", "twosets", "pfactory", "syminf", "fac2", "trim"))]
    jobs = pmap(run_model_session, cfgs, procs=16, chunk=1)
    with concurrent.futures.ThreadPoolExecutor(max_workers=12) as ex:
        verdicts = list(ex.map(lambda ij: validate_loop(run, ij[1], ij[0]), list(enumerate(jobs))))
    rejected = []
    for job, v in zip(jobs, verdicts):
        run.add_verdicts(v, "Trace_SearchLoop " + job["tid"]) if False else None
        run.states += v.distinct
        run.transitions += v.generated
        run.traces += v.total
        run.events += len(job["events"])
        if any(e["kind"] == "skip" for e in job["events"] if e["op"] == "packet"):
            run.nt("loop-with-skips:" + job["tid"])
        else:
            run.nt("loop:" + job["tid"])
        for r in v.rejects:
            rejected.append((job, r))
    run.tlc_runs.append({"run": "Trace_SearchLoop: %d recorded searches validated step by step against Search.tla" % len(jobs),
                         "accepted": sum(v.accepted for v in verdicts), "traces": len(jobs)})
    nmc = 0
    if want_mc:
        seen = {}
        for job in jobs:
            key = json.dumps(job["universe"], sort_keys=True)
            if key not in seen and job["tid"].split("|")[5] in ("default", "forest"):
                seen[key] = job
        if tier != "quick" and len(seen) > 400:
            keys_ = list(seen)
            seen = {k: seen[k] for i, k in enumerate(keys_) if "|plain|" in seen[k]["tid"] or i % (len(keys_) // 400 + 1) == 0}
        if tier == "quick" and len(seen) > 36:
            # a deterministic sample: the README-pack universes and every third of the others
            keys_ = list(seen)
            keep = [k for k in keys_ if "|plain|" in seen[k]["tid"]] + [k for i, k in enumerate(k for k in keys_ if "|plain|" not in seen[k]["tid"]) if i % 3 == 0]
            seen = {k: seen[k] for k in keep[:48]}
        with concurrent.futures.ThreadPoolExecutor(max_workers=4) as ex:
            results = list(ex.map(lambda ij: model_check_universe(run, ij[1]["universe"], ij[0], 6 if tier == "quick" else 10), list(enumerate(seen.values()))))
        for job, r in zip(seen.values(), results):
            tlc.require_ok(r, "MC_Search " + job["tid"])
            run.add_tlc(r, "MC_Search all time-slicings, universe of " + "|".join(job["tid"].split("|")[1:6:2]))
            if r.status == "violated":
                run.tlc_violation(r, "MC_Search/" + job["tid"].split("|")[1])
            nmc += 1
    return jobs, rejected, nmc


# ---- universe G: generated rule tables realised as real classes / strategies (universes/tables.py) -------------------------
def run_table_session(args):
    """Worker: a recorded search over a generated table universe.  The universe given to TLC is the generated table itself."""
    seed, fl, sch = args
    from .drivers import search_campaign as sc
    from .session import Session
    from .universes import tables as T

    u = T.generate(seed, "forest" if fl == "forest" else "base")
    start, pack = T.realise(u, seed)
    import signal

    class _Late(BaseException):
        pass

    def _late(*a):
        raise _Late()

    table = {k: v for k, v in u.items() if not k.startswith("_")}
    # a time budget per session (like the packet budget: exceeding it is never a verdict, the universe is reported as skipped)
    old_handler = signal.signal(signal.SIGALRM, _late)
    signal.alarm(int(__import__("os").environ.get("G_ALARM", "90")))
    try:
        s = Session(start, pack, flavour=fl, schedule=sc.SCHEDULES[sch], reverse=u["reverse"] if fl == "forest" else True, record=("queue",))
        outcome, _, events = _recorded_loop(s, fl, universe=table)
    except _Late:
        import sys
        import traceback

        traceback.print_exc(file=sys.stderr)
        outcome, events = "time-budget", []
    finally:
        signal.alarm(0)
        signal.signal(signal.SIGALRM, old_handler)
    # the table re-read from the pack (what extract() does for the word universe) must be the generated one: fixture self-check
    return {"tid": "G|%d|%s|%s" % (seed, fl, sch), "universe": table, "events": events, "outcome": outcome if isinstance(outcome, str) else str(outcome),
            "sig": "universe=G/flavour=%s" % fl}


def table_campaign(run, tier, seed, n=None, want_mc=True):
    """Recorded searches over generated table universes validated against Search.tla instantiated with the *generated* table,
    and all time-slicings of a sample of those universes model-checked.  Returns (jobs, rejected, nmc)."""
    import concurrent.futures
    from .common import pmap

    # 60 universes in the quick tier, 120 in the thorough tier (which also model-checks more of them for all slicings)
    n = n or (60 if tier == "quick" else 120)
    scheds = ("one", "three", "all", "mixed")
    args = [(seed * 100000 + i, ("default", "forest", "forget")[i % 3] if i % 6 else "default", scheds[i % 4]) for i in range(n)]
    # in batches of 60 universes (sessions in forked workers, then one single-worker monitor JVM per recorded loop)
    jobs, verdicts = [], []
    for b in range(0, len(args), 60):
        bjobs = pmap(run_table_session, args[b:b + 60], procs=12, chunk=1)
        with concurrent.futures.ThreadPoolExecutor(max_workers=10) as ex:
            verdicts += list(ex.map(lambda ij: validate_loop(run, ij[1], "G%d" % (b + ij[0])), list(enumerate(bjobs))))
        jobs += bjobs
    rejected = []
    for job, v in zip(jobs, verdicts):
        run.states += v.distinct
        run.transitions += v.generated
        run.traces += v.total
        run.events += len(job["events"])
        if len(job["events"]) >= 6:
            run.nt("loop-G:" + job["tid"])
        for r in v.rejects:
            rejected.append((job, r))
    skipped = [j["tid"] for j in jobs if j["outcome"] == "time-budget"]
    if skipped:
        run.extra["generated_universes_skipped_for_time"] = skipped
    run.tlc_runs.append({"run": "Trace_SearchLoop: %d recorded searches over generated table universes (universe G) validated step by step against Search.tla" % len(jobs),
                         "accepted": sum(v.accepted for v in verdicts), "traces": len(jobs)})
    nmc = 0
    if want_mc:
        pick = [j for j in jobs if j["tid"].split("|")[2] != "forget"][:: (4 if tier == "quick" else 2)][: (8 if tier == "quick" else 20)]
        with concurrent.futures.ThreadPoolExecutor(max_workers=4) as ex:
            results = list(ex.map(lambda ij: model_check_universe(run, ij[1]["universe"], 5000 + ij[0], 5 if tier == "quick" else 8), list(enumerate(pick))))
        for job, r in zip(pick, results):
            tlc.require_ok(r, "MC_Search " + job["tid"])
            run.add_tlc(r, "MC_Search all time-slicings, generated universe " + job["tid"])
            if r.status == "violated":
                run.tlc_violation(r, "MC_Search/" + job["tid"])
            nmc += 1
    return jobs, rejected, nmc
