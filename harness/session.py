"""One recorded search session on the real CombinatorialSpecificationSearcher.

The session builds the searcher's databases itself (so that recorders see the very first call),
drives auto_search under a *scripted clock* (every time-slicing of the expand/check loop can be
forced: a slice of d+1 packets follows a has_specification() during which the clock advanced by d),
and records, as events in the formats of the Trace_* monitors:

  classdb  - every public ClassDB call                                   (Trace_ClassDB, C15)
  queue    - every public DefaultQueue call                               (Trace_ClassQueue, C16)
  equiv    - edges / marks / cycle detections + all-pairs observations    (Trace_EquivDB, C06)
  table    - forest keys inserted + reported function at every check      (Trace_Table, C03)
  hasspec  - every has_specification() with the rules stored before it   (Trace_Prune, C05)
  search   - every rule insertion: labels, classes, strategy, origin      (Trace_Search, C04)
"""
import types
from typing import Any, Callable, Dict, List, Optional

from . import instrument as ins

_PATCHED = {}
_ACTIVE: List["Session"] = []


class BudgetExceeded(BaseException):
    """The fixture universe of a session turned out larger than the harness is willing to explore (never a verdict)."""


MAX_PACKETS = 3000


class Clock:
    """Stands in for the `time` module inside comb_spec_searcher.comb_spec_searcher."""

    def __init__(self):
        self.now = 1000.0

    def time(self):
        return self.now


class TickClock:
    """For tree_searcher: every look at the clock advances it by one 'second'."""

    def __init__(self):
        self.now = 0.0

    def time(self):
        self.now += 1.0
        return self.now


class scripted_time:
    """Context manager: library code outside a Session (plain `auto_search()` calls of fixtures) also runs on scripted clocks,
    so that what it returns does not depend on how fast this machine is (random proof trees are drawn until a time limit)."""

    def __enter__(self):
        import comb_spec_searcher.comb_spec_searcher as cssmod
        import comb_spec_searcher.tree_searcher as ts

        self.mods = (cssmod, ts)
        self.old = (cssmod.time, ts.time)
        cssmod.time, ts.time = TickClock(), TickClock()
        return self

    def __exit__(self, *a):
        self.mods[0].time, self.mods[1].time = self.old
        return False


def _install():
    if _PATCHED:
        return
    import comb_spec_searcher.comb_spec_searcher as cssmod
    from comb_spec_searcher.rule_db.base import RuleDBBase
    from comb_spec_searcher.rule_db.forest import RuleDBForest

    CSS = cssmod.CombinatorialSpecificationSearcher
    _PATCHED["cssmod"] = cssmod

    def cur(searcher=None):
        return _ACTIVE[-1] if _ACTIVE else None

    # origin of every rule object: which pack element produced it for which class
    orig_rfs = CSS._rules_from_strategy

    def rules_from_strategy(comb_class, strategy):
        s = cur()
        for rule in orig_rfs(comb_class, strategy):
            if s is not None:
                s.origins[id(rule)] = (rule, comb_class, strategy)
            yield rule

    CSS._rules_from_strategy = staticmethod(rules_from_strategy)

    orig_expand = CSS._expand

    def _expand(self, comb_class, label, strategies, inferral):
        s = cur()
        if s is not None and s.searcher is self:
            s.on_packet(label, strategies, inferral)
        return orig_expand(self, comb_class, label, strategies, inferral)

    CSS._expand = _expand

    orig_has = CSS.has_specification

    def has_specification(self):
        s = cur()
        if s is None or s.searcher is not self:
            return orig_has(self)
        s.before_hasspec()
        ans = orig_has(self)
        s.after_hasspec(ans)
        return ans

    CSS.has_specification = has_specification

    def wrap_add(cls):
        orig = cls.add

        def add(self, start, ends, rule):
            s = cur()
            if s is None or s.searcher.ruledb is not self:
                return orig(self, start, ends, rule)
            before = s.before_add(start, ends, rule)
            try:
                return orig(self, start, ends, rule)
            finally:
                s.after_add(start, ends, rule, before)

        cls.add = add

    wrap_add(RuleDBBase)
    wrap_add(RuleDBForest)

    def wrap_get_rules(cls):
        orig = cls.get_specification_rules

        def get_specification_rules(self, *a, **k):
            s = cur()
            it = orig(self, *a, **k)
            if s is None or s.searcher is None or s.searcher.ruledb is not self:
                return it
            rules = list(it)
            s.raw_rules.append(rules)
            return iter(rules)

        cls.get_specification_rules = get_specification_rules

    wrap_get_rules(RuleDBBase)
    wrap_get_rules(RuleDBForest)

    from comb_spec_searcher.rule_db.forest import ForestRuleExtractor

    orig_min = ForestRuleExtractor._minimize

    def _minimize(self):
        res = orig_min(self)
        s = cur()
        if s is not None:
            s.extractions.append(list(self.needed_rules))
        return res

    ForestRuleExtractor._minimize = _minimize


def strat_id(s) -> str:
    return repr(s)


class Session:
    def __init__(self, start, pack, flavour="default", schedule=(0,), reverse=True, record=("classdb", "queue", "equiv", "table", "hasspec", "search"),
                 expand_verified=False, track_keys=True):
        _install()
        from comb_spec_searcher import CombinatorialSpecificationSearcher
        from comb_spec_searcher.class_db import ClassDB
        from comb_spec_searcher.class_queue import DefaultQueue
        from comb_spec_searcher.rule_db import RuleDB, RuleDBForest, RuleDBForgetStrategy

        self.start, self.pack, self.flavour = start, pack, flavour
        self.schedule = list(schedule) or [0]
        self.sched_pos = 0
        self.record = set(record)
        self.track_keys = track_keys
        self.namer = ins.Namer("c")
        self.origins: Dict[int, Any] = {}
        self.packets: List[dict] = []
        self.raw_rules: List[list] = []
        self.extractions: List[list] = []
        self.ev: Dict[str, List[dict]] = {k: [] for k in ("classdb", "queue", "equiv", "table", "hasspec", "search")}
        self.stream: List[dict] = []  # classdb + add events in order (Trace_Search)
        self.checks = 0
        self.answers: List[bool] = []
        self.check_points: List[tuple] = []
        self.clock = Clock()
        self.tick = TickClock()
        self.ruledb = {"default": RuleDB, "forget": RuleDBForgetStrategy,
                       "forest": lambda: RuleDBForest(reverse=reverse)}[flavour]()
        self.classdb = ClassDB(type(start))
        self.queue = DefaultQueue(pack)
        self.recs = []
        self.cdb_rec = ins.ClassDBRecorder(self.classdb, self.namer, sink=self.stream)
        self.cdb_rec.enabled = "classdb" in self.record or "search" in self.record
        self.recs.append(self.cdb_rec)
        if "queue" in self.record:
            self.q_rec = ins.QueueRecorder(self.queue, sink=self.ev["queue"])
            self.recs.append(self.q_rec)
        self.eq_rec = self.tm_rec = None
        if flavour != "forest" and "equiv" in self.record:
            self.eq_rec = ins.EquivRecorder(self.ruledb.equivdb, sink=self.ev["equiv"])
            self.recs.append(self.eq_rec)
        if flavour == "forest" and "table" in self.record:
            self.tm_rec = ins.TableRecorder(self.ruledb.table_method, observe_each=False, sink=self.ev["table"])
            self.recs.append(self.tm_rec)
        _ACTIVE.append(self)
        self.searcher = None
        try:
            # the constructor already labels the start class, verifies it and expands its symmetries
            self.searcher = _Deferred(self)
            self.searcher = CombinatorialSpecificationSearcher(
                start, pack, ruledb=self.ruledb, classdb=self.classdb, classqueue=self.queue, expand_verified=expand_verified)
        finally:
            _ACTIVE.pop()

    @classmethod
    def adopt(cls, searcher, pack, flavour, schedule=(0,), record=("queue",), namer=None):
        """A session around an existing searcher (e.g. one restored from a pickle)."""
        _install()
        self = cls.__new__(cls)
        self.start, self.pack, self.flavour = searcher.start_class, pack, flavour
        self.schedule = list(schedule) or [0]
        self.sched_pos = 0
        self.record = set(record)
        self.track_keys = False
        self.namer = namer or ins.Namer("c")
        self.origins = {}
        self.packets = []
        self.raw_rules = []
        self.extractions = []
        self.ev = {k: [] for k in ("classdb", "queue", "equiv", "table", "hasspec", "search")}
        self.stream = []
        self.checks = 0
        self.clock = Clock()
        self.tick = TickClock()
        self.ruledb, self.classdb, self.queue = searcher.ruledb, searcher.classdb, searcher.classqueue
        self.recs = []
        self.cdb_rec = ins.ClassDBRecorder(self.classdb, self.namer, sink=self.stream)
        self.cdb_rec.enabled = "classdb" in self.record or "search" in self.record
        self.recs.append(self.cdb_rec)
        if "queue" in self.record:
            self.q_rec = ins.QueueRecorder(self.queue, sink=self.ev["queue"])
            self.recs.append(self.q_rec)
        self.eq_rec = self.tm_rec = None
        self.searcher = searcher
        self.answers = []
        return self

    # ---- hooks --------------------------------------------------------------------------
    def on_packet(self, label, strategies, inferral):
        if len(self.packets) > MAX_PACKETS:
            raise BudgetExceeded()
        self.clock.now += 1.0
        rec = {"l": int(label), "inf": bool(inferral), "s": [strat_id(s) for s in strategies]}
        q_rec = getattr(self, "q_rec", None)
        if q_rec is not None:
            from comb_spec_searcher.typing import WorkPacket

            rec["p"] = q_rec.project(WorkPacket(label, tuple(strategies), inferral))
        self.packets.append(rec)

    def before_hasspec(self):
        if self.sched_pos < len(self.schedule):
            d = self.schedule[self.sched_pos]
            self.sched_pos += 1
        else:
            d = self.schedule[-1]
        self.clock.now += float(d)

    def stored_rules(self):
        db = self.ruledb
        out = []
        for (s, e) in db.rule_to_strategy:
            out.append({"s": int(s), "e": [int(x) for x in e], "tw": False})
        for (s, e) in db.eqv_rule_to_strategy:
            out.append({"s": int(s), "e": [int(x) for x in e], "tw": True})
        return out

    def after_hasspec(self, ans):
        self.checks += 1
        if hasattr(self, "check_points"):
            nxt = sum(1 for e in self.ev["queue"] if e["op"] == "next")
            self.check_points.append((nxt, bool(ans)))
        if hasattr(self, "answers"):
            self.answers.append(bool(ans))
        if self.flavour != "forest":
            if "hasspec" in self.record:
                self.ev["hasspec"].append({"op": "hasspec", "rd": [], "root": int(self.searcher.start_label), "res": [],
                                           "tree": {"l": -1, "ch": []}, "m": -1, "cnt": 0, "finder": "", "rules": self.stored_rules(),
                                           "iter": bool(self.pack.iterative), "ans": bool(ans)})
            if self.eq_rec is not None:
                self.eq_rec.observe(paths=True, max_paths=12)
        else:
            if self.tm_rec is not None:
                self.tm_rec.observe(nc=len(self.classdb.label_to_info))
            if "hasspec" in self.record:
                self.ev["hasspec"].append({"op": "forest_hasspec", "ans": bool(ans), "root": int(self.searcher.start_label)})

    def before_add(self, start, ends, rule):
        if "search" not in self.record or not self.track_keys:
            return None
        if self.flavour == "forest":
            return len(self.ruledb.table_method._rules)
        return set(self.ruledb)

    def after_add(self, start, ends, rule, before):
        if "search" not in self.record:
            return
        from comb_spec_searcher.strategies.strategy import EmptyStrategy
        from comb_spec_searcher.exception import StrategyDoesNotApply

        with self.cdb_rec.paused():
            o = self.origins.get(id(rule))
            if o is not None and o[0] is rule:
                origin_cls, origin_strat = self.namer(o[1]), strat_id(o[2])
            else:
                origin_cls, origin_strat = "", ""
            try:
                children = list(rule.children)
            except Exception:
                children = []
            names = [self.namer(c) for c in children]
            # what the rule's own strategy really produces when re-applied to the parent class
            try:
                again = rule.strategy(rule.comb_class)
                re_names = [self.namer(c) for c in again.children]
                reapplies = True
            except (StrategyDoesNotApply, Exception):
                re_names, reapplies = [], False
            stored = []
            if before is not None:
                if self.flavour == "forest":
                    for fk in self.ruledb.table_method._rules[before:]:
                        stored.append({"s": int(fk.parent), "e": [int(x) for x in fk.children], "b": fk.bucket.name})
                else:
                    for (s, e) in set(self.ruledb) - before:
                        stored.append({"s": int(s), "e": [int(x) for x in e], "b": ""})
            ev = {"op": "rule", "kc": "", "c": self.namer(rule.comb_class), "l": int(start), "b": bool(rule.possibly_empty),
                  "ret": {"k": "none", "i": 0, "c": ""},
                  "ends": [int(x) for x in ends], "children": names, "strat": strat_id(rule.strategy),
                  "empty_strategy": isinstance(rule.strategy, EmptyStrategy),
                  "origin_cls": origin_cls, "origin_strat": origin_strat, "reapplies": reapplies, "re_children": re_names,
                  "stored": stored, "tracked": before is not None}
        self.stream.append(ev)

    # ---- driving --------------------------------------------------------------------------
    def run(self, **kwargs):
        """auto_search under the scripted clock; returns ('spec', spec) | ('none', None) | ('timeout', None) | ('error', exc)"""
        import comb_spec_searcher.tree_searcher as ts
        from comb_spec_searcher.exception import ExceededMaxtimeError, SpecificationNotFound

        cssmod = _PATCHED["cssmod"]
        old_time, old_ts_time = cssmod.time, ts.time
        cssmod.time, ts.time = self.clock, self.tick
        _ACTIVE.append(self)
        try:
            kwargs.setdefault("perc", 100)
            try:
                return "spec", self.searcher.auto_search(**kwargs)
            except SpecificationNotFound:
                return "none", None
            except ExceededMaxtimeError:
                return "timeout", None
            except BudgetExceeded:
                return "budget", None
            except Exception as e:  # recorded by the caller as an outcome, not a machinery failure
                return "error", e
        finally:
            _ACTIVE.pop()
            cssmod.time, ts.time = old_time, old_ts_time

    def close(self):
        for r in self.recs:
            r.close()

    # ---- traces ---------------------------------------------------------------------------
    def truly_empty(self):
        return [n for cls, n in self.namer.names.items() if _safe_empty(cls)]

    def classdb_trace(self, tid):
        evs = [e for e in self.stream if e["op"] != "rule"]
        return {"tid": tid, "te": self.truly_empty(), "events": evs}

    def class_table(self):
        """name -> class record for WordUniverse.tla (only for classes of the word universe)"""
        return {n: c.desc() for c, n in self.namer.names.items() if hasattr(c, "desc")}

    def spec_events(self, spec, max_n=5, counts=True, stages=("raw", "final")):
        """events of Trace_Spec for a returned specification: rule lists and the root's enumeration"""
        from .specdesc import spec_rules_desc, terms_list

        ev = []
        root = self.namer(spec.root)
        if "raw" in stages and self.raw_rules:
            ev.append({"op": "spec", "stage": "raw", "root": root, "rules": spec_rules_desc(self.raw_rules[-1], self.namer, self.pack)})
        if "final" in stages:
            ev.append({"op": "spec", "stage": "final", "root": root, "rules": spec_rules_desc(list(spec.rules_dict.values()), self.namer, self.pack)})
        if counts:
            for n in range(max_n + 1):
                try:
                    terms = spec.get_terms(n)
                    ev.append({"op": "terms", "c": root, "n": n, "terms": terms_list(terms)})
                except Exception as e:
                    ev.append({"op": "terms", "c": root, "n": n, "terms": [[[-1], hash(type(e).__name__) % 1000 + 1]], "error": type(e).__name__ + ":" + str(e)[:200]})
        return ev

    def spec_trace(self, tid, events):
        return {"tid": tid, "classes": self.class_table(), "te": self.truly_empty(), "pack": [strat_id(s) for s in self.pack],
                "events": events}

    def search_trace(self, tid):
        return {"tid": tid, "te": self.truly_empty(), "flavour": self.flavour,
                "pack": [strat_id(s) for s in self.pack], "factories": [strat_id(s) for s in self.pack if _is_factory(s)],
                "events": list(self.stream)}


class _Deferred:
    """Placeholder while the searcher's constructor runs (hooks compare `searcher is self`)."""

    def __init__(self, session):
        self.ruledb = session.ruledb
        self.start_label = 0

    def __eq__(self, other):
        return False


def _is_factory(s):
    from comb_spec_searcher.strategies.strategy import StrategyFactory

    return isinstance(s, StrategyFactory)


def _safe_empty(cls):
    try:
        return bool(cls.is_empty())
    except Exception:
        return False


_RULE_DEFAULTS = {"ends": [], "children": [], "strat": "", "empty_strategy": False, "origin_cls": "", "origin_strat": "",
                  "reapplies": True, "re_children": [], "stored": [], "tracked": False}


def _norm_stream_event(e):
    if e["op"] == "rule":
        return e
    d = dict(e)
    for k, v in _RULE_DEFAULTS.items():
        d.setdefault(k, v)
    return d
