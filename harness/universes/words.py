"""Fixture universe W: words over a small alphabet with a given prefix avoiding consecutive
patterns, carrying any number of statistics (number of letters of the word lying in a letter set).

It is the README example generalised.  Every strategy below honours the documented strategy
contracts (children partition / factor the parent, parameter maps transport the statistics); that
claim is itself checked per run against WordUniverse.tla (fixture validation, exit 2 if broken).
"""
import itertools
import random as _random
from typing import Dict, Iterator, Optional, Tuple

import sympy

from comb_spec_searcher import (
    AtomStrategy,
    CartesianProductStrategy,
    CombinatorialClass,
    CombinatorialObject,
    DisjointUnionStrategy,
    StrategyFactory,
    StrategyPack,
    VerificationStrategy,
)
from comb_spec_searcher.strategies.constructor import Constructor
from comb_spec_searcher.strategies.strategy import Strategy, SymmetryStrategy


RNG = _random  # the random source of the fixture's own samplers (replaced by an enumerator in C08)


class W(str, CombinatorialObject):
    def size(self):
        return str.__len__(self)


class WC(CombinatorialClass[W]):
    """Words over `alphabet` that start with `prefix` and avoid `patterns` as consecutive factors.
    just_prefix: the class holds only the word `prefix`.  stats = ((name, letters), ...)."""

    def __init__(self, prefix, patterns, alphabet, just_prefix=False, stats=(), hidden=False):
        self.lax = hidden == "lax"  # declares the lax minimum size 1 instead of the exact one (the documented lower bound)
        self.hidden = bool(hidden) and not self.lax  # a one-word class that does not declare itself an atom (optional knowledge)
        self.alphabet = tuple(sorted(alphabet))
        self.prefix = W(prefix)
        self.patterns = tuple(sorted(map(W, set(patterns))))
        self.just_prefix = bool(just_prefix)
        self.stats = tuple((str(n), "".join(sorted(set(l)))) for n, l in stats)

    # -- combinatorial class API
    @property
    def extra_parameters(self):
        return tuple(n for n, _ in self.stats)

    def get_parameters(self, obj):
        return tuple(sum(1 for x in obj if x in l) for _, l in self.stats)

    def get_minimum_value(self, parameter):
        l = dict(self.stats)[parameter]
        return sum(1 for x in self.prefix if x in l)

    def possible_parameters(self, n):
        seen = set()
        for o in self.objects_of_size(n):
            p = self.get_parameters(o)
            if p not in seen:
                seen.add(p)
                yield dict(zip(self.extra_parameters, p))

    def is_empty(self):
        return any(p in self.prefix for p in self.patterns)

    def is_atom(self):
        return self.just_prefix and not self.hidden

    def minimum_size_of_object(self):
        return min(1, len(self.prefix)) if self.lax else len(self.prefix)

    def objects_of_size(self, n, **parameters):
        def ok(w):
            return not parameters or dict(zip(self.extra_parameters, self.get_parameters(w))) == parameters

        if self.is_empty():
            return
        if self.just_prefix:
            if n == len(self.prefix) and ok(self.prefix):
                yield W(self.prefix)
            return
        if len(self.prefix) > n:
            return
        for t in itertools.product(self.alphabet, repeat=n - len(self.prefix)):
            w = W(self.prefix + "".join(t))
            if all(p not in w for p in self.patterns) and ok(w):
                yield w

    def to_jsonable(self):
        d = super().to_jsonable()
        d.update(prefix=str(self.prefix), patterns=[str(p) for p in self.patterns], alphabet=list(self.alphabet),
                 just_prefix=int(self.just_prefix), stats=[list(s) for s in self.stats], hidden=2 if self.lax else int(self.hidden))
        return d

    @classmethod
    def from_dict(cls, d):
        return cls(d["prefix"], d["patterns"], d["alphabet"], bool(d["just_prefix"]), [tuple(s) for s in d["stats"]], "lax" if d.get("hidden", 0) == 2 else bool(d.get("hidden", 0)))

    def to_bytes(self):
        raise NotImplementedError

    def key(self):
        return (self.prefix, self.patterns, self.alphabet, self.just_prefix, self.stats) + (("hidden",) if self.hidden else ()) + (("lax",) if self.lax else ())

    def __eq__(self, o):
        return isinstance(o, WC) and self.key() == o.key()

    def __hash__(self):
        return hash(self.key())

    def __repr__(self):
        return "WC%r" % (self.key(),)

    __str__ = __repr__

    # -- description for the TLA+ ground truth (letters -> 1..k)
    def desc(self):
        idx = {a: i + 1 for i, a in enumerate(self.alphabet)}
        return {"pre": [idx[x] for x in self.prefix], "pats": [[idx.get(x, 0) for x in p] for p in self.patterns],
                "k": len(self.alphabet), "jp": self.just_prefix,
                "stats": [[idx[x] for x in l if x in idx] for _, l in self.stats]}

    def with_(self, **kw):
        d = dict(prefix=self.prefix, patterns=self.patterns, alphabet=self.alphabet, just_prefix=self.just_prefix, stats=self.stats, hidden=False)
        d.update(kw)
        return WC(**d)


class WCB(WC):
    """The same class stored compressed in the class database."""

    def to_bytes(self):
        import json

        return json.dumps([self.prefix, self.patterns, self.alphabet, self.just_prefix, self.stats]).encode()

    @classmethod
    def from_bytes(cls, b):
        import json

        p, pats, alph, jp, stats = json.loads(b.decode())
        return cls(p, pats, alph, jp, [tuple(s) for s in stats])

    def with_(self, **kw):
        d = dict(prefix=self.prefix, patterns=self.patterns, alphabet=self.alphabet, just_prefix=self.just_prefix, stats=self.stats)
        d.update(kw)
        return WCB(**d)

    def __eq__(self, o):
        return isinstance(o, WC) and self.key() == o.key()

    __hash__ = WC.__hash__


def same_params(c, children):
    return tuple({k: k for k in c.extra_parameters} for _ in children)


class Simple:
    """from_dict / repr boilerplate for parameterless strategies."""

    @classmethod
    def from_dict(cls, d):
        return cls(**d)

    def __repr__(self):
        return self.__class__.__name__ + "()"


class Expand(Simple, DisjointUnionStrategy[WC, W]):
    """C(p) = {p} + C(pa) + C(pb) + ...   (children may be empty)"""

    def decomposition_function(self, c):
        if c.just_prefix:
            return None
        return (c.with_(just_prefix=True),) + tuple(c.with_(prefix=c.prefix + a) for a in c.alphabet)

    def extra_parameters(self, c, children=None):
        if children is None:
            children = self.decomposition_function(c)
        return same_params(c, children)

    def formal_step(self):
        return "expand by next letter"

    def forward_map(self, c, w, children=None):
        if children is None:
            children = self.decomposition_function(c)
        idx = 0 if len(w) == len(c.prefix) else 1 + c.alphabet.index(w[len(c.prefix)])
        return tuple(w if i == idx else None for i in range(len(children)))


class Expand2(Simple, DisjointUnionStrategy[WC, W]):
    """C(p) = {p} + {p.x} for every letter x + C(p.x.y) for every pair of letters: expansion by two letters, a second
    way of expanding every class (a pack with Expand and Expand2 offers competing rules for the same class)."""

    def decomposition_function(self, c):
        if c.just_prefix:
            return None
        kids = [c.with_(just_prefix=True)]
        kids += [c.with_(prefix=c.prefix + a, just_prefix=True) for a in c.alphabet]
        kids += [c.with_(prefix=c.prefix + a + b) for a in c.alphabet for b in c.alphabet]
        return tuple(kids)

    def extra_parameters(self, c, children=None):
        if children is None:
            children = self.decomposition_function(c)
        return same_params(c, children)

    def formal_step(self):
        return "expand by the next two letters"

    def forward_map(self, c, w, children=None):
        if children is None:
            children = self.decomposition_function(c)
        k, n = len(c.alphabet), len(c.prefix)
        if len(w) == n:
            idx = 0
        elif len(w) == n + 1:
            idx = 1 + c.alphabet.index(w[n])
        else:
            idx = 1 + k + c.alphabet.index(w[n]) * k + c.alphabet.index(w[n + 1])
        return tuple(w if i == idx else None for i in range(len(children)))


def foldable(c):
    return (not c.just_prefix and c.prefix == "" and c.alphabet == ("a", "b") and not c.stats and not c.is_empty()
            and set(c.patterns) == {swap_word(p) for p in c.patterns})


class WeightedUnion(Constructor):
    """parent = m_0 copies of child 0 + m_1 copies of child 1 + ... (same size): a constructor of the fixture's own, whose
    rules have a backward map with several preimages."""

    def __init__(self, multiplicities):
        self.multiplicities = tuple(multiplicities)

    def get_equation(self, lhs_func, rhs_funcs):
        import sympy

        return sympy.Eq(lhs_func, sum(m * f for m, f in zip(self.multiplicities, rhs_funcs)))

    def reliance_profile(self, n, **parameters):
        return tuple({"n": (n,)} for _ in self.multiplicities)

    def get_terms(self, parent_terms, subterms, n):
        from collections import Counter

        terms = Counter()
        for mult, child_terms in zip(self.multiplicities, subterms):
            for param, value in child_terms(n).items():
                terms[param] += mult * value
        return terms

    def get_sub_objects(self, subobjs, n):
        for idx, subobj in enumerate(subobjs):
            for param, objs in subobj(n).items():
                yield param, tuple(objs if i == idx else [None] for i in range(len(subobjs)))

    def random_sample_sub_objects(self, parent_count, subsamplers, subrecs, n, **parameters):
        choice = RNG.randint(1, parent_count)
        total = 0
        for idx, (mult, rec, subsampler) in enumerate(zip(self.multiplicities, subrecs, subsamplers)):
            total += mult * rec(n=n, **parameters)
            if choice <= total:
                obj = subsampler(n=n, **parameters)
                return tuple(obj if i == idx else None for i in range(len(subrecs)))
        raise RuntimeError("Function did not return")

    def equiv(self, other, data=None):
        return isinstance(other, WeightedUnion) and self.multiplicities == other.multiplicities, None

    def __str__(self):
        return "weighted union %s" % (self.multiplicities,)


class FoldSwap(Simple, Strategy[WC, W]):
    """For a class with empty prefix and a pattern set closed under the letter swap: the empty word, or a word starting with
    'a', or the letter swap of such a word:  C('') = {''} + 2 x C('a').  The backward map has two preimages."""

    def __init__(self):
        super().__init__(ignore_parent=True, inferrable=False, possibly_empty=False, workable=True)

    def can_be_equivalent(self):
        return False

    def is_two_way(self, comb_class):
        return False

    def is_reversible(self, comb_class):
        return False

    def shifts(self, comb_class, children=None):
        return (0, 0)

    def decomposition_function(self, c):
        if foldable(c):
            return (c.with_(just_prefix=True), c.with_(prefix="a"))
        return None

    def constructor(self, comb_class, children=None):
        return WeightedUnion((1, 2))

    def reverse_constructor(self, idx, comb_class, children=None):
        raise NotImplementedError

    def formal_step(self):
        return "the empty word, or a word starting with a, or its letter swap"

    def backward_map(self, c, objs, children=None):
        if objs[0] is not None:
            yield W(objs[0])
        else:
            yield W(objs[1])
            yield W(swap_word(objs[1]))

    def forward_map(self, c, obj, children=None):
        if len(obj) == 0:
            return (obj, None)
        return (None, obj if obj[0] == "a" else W(swap_word(obj)))

    def __repr__(self):
        return "FoldSwap()"

    @classmethod
    def from_dict(cls, d):
        return cls()


class ExpandUnlessFoldable(Expand):
    def decomposition_function(self, c):
        return None if foldable(c) else Expand.decomposition_function(self, c)

    def formal_step(self):
        return "expand by next letter (unless the class can be folded)"


class ExpandMinimal(Expand):
    """Expand, but only for classes whose pattern set is minimal (no pattern contains another): a class with a redundant
    pattern then has no rule of its own and can only be derived from the minimal class (RedundantParentFactory)."""

    def decomposition_function(self, c):
        if any(q != p and q in p for p in c.patterns for q in c.patterns):
            return None
        return Expand.decomposition_function(self, c)

    def formal_step(self):
        return "expand by next letter (minimal pattern sets only)"


def safe_cut(c):
    """largest s such that no occurrence of a pattern in a word of C(prefix) can start before s"""
    p = c.prefix
    for i in range(len(p)):
        e = p[i:]
        if any(e == q[: len(e)] for q in c.patterns):
            return i
    return len(p)


class RemoveFront(Simple, CartesianProductStrategy[WC, W]):
    """C(p) = {p[:s]} x C(p[s:]) when no pattern occurrence can straddle position s"""

    def decomposition_function(self, c):
        if c.just_prefix or c.is_empty():
            return None
        s = safe_cut(c)
        if s > 0:
            return (c.with_(prefix=c.prefix[:s], just_prefix=True), c.with_(prefix=c.prefix[s:]))
        return None

    def extra_parameters(self, c, children=None):
        if children is None:
            children = self.decomposition_function(c)
        return same_params(c, children)

    def formal_step(self):
        return "remove front of prefix"

    def backward_map(self, c, ws, children=None):
        yield W(ws[0] + ws[1])

    def forward_map(self, c, w, children=None):
        if children is None:
            children = self.decomposition_function(c)
        k = len(children[0].prefix)
        return W(w[:k]), W(w[k:])


class RemoveFrontLazy(RemoveFront):
    """The same decomposition as RemoveFront, but declaring no shifts at all (a strategy may promise less
    than it delivers): the same (parent, children) pair then exists with two different shift vectors, and
    only the strict one makes recursive specifications productive."""

    def shifts(self, comb_class, children=None):
        if children is None:
            children = self.decomposition_function(comb_class)
        return tuple(0 for _ in children)

    def is_reversible(self, comb_class):
        # the shifts of a reverse rule are derived arithmetically from the declared ones, which is only
        # sound when those are exact: a strategy that under-declares must not offer itself for reversal
        return False

    def formal_step(self):
        return "remove front of prefix (no shifts declared)"


class SplitFront(Simple, CartesianProductStrategy[WC, W]):
    """A product with three factors of different minimum sizes:
    C(p) = {p[:1]} x {p[1:s]} x C(p[s:])   when the safe cut s is at least 2."""

    def decomposition_function(self, c):
        if c.just_prefix or c.is_empty():
            return None
        s = safe_cut(c)
        if s >= 2:
            return (c.with_(prefix=c.prefix[:1], just_prefix=True), c.with_(prefix=c.prefix[1:s], just_prefix=True), c.with_(prefix=c.prefix[s:]))
        return None

    def extra_parameters(self, c, children=None):
        if children is None:
            children = self.decomposition_function(c)
        return same_params(c, children)

    def formal_step(self):
        return "split front of prefix in two atoms"

    def backward_map(self, c, ws, children=None):
        yield W(ws[0] + ws[1] + ws[2])

    def forward_map(self, c, w, children=None):
        if children is None:
            children = self.decomposition_function(c)
        k = len(children[1].prefix)
        return W(w[:1]), W(w[1:1 + k]), W(w[1 + k:])


class WAtom(Simple, VerificationStrategy[WC, W]):
    """Atoms (classes holding exactly their prefix) are verified."""

    def __init__(self, ignore_parent=True):
        super().__init__(ignore_parent=ignore_parent)

    def verified(self, c):
        return c.is_atom() and not c.is_empty()

    def get_terms(self, c, n):
        return c.get_terms(n)

    def get_objects(self, c, n):
        return c.get_objects(n)

    def get_genf(self, c, funcs=None):
        r = sympy.var("x") ** len(c.prefix)
        for (n, _), v in zip(c.stats, c.get_parameters(c.prefix)):
            r *= sympy.var(n) ** v
        return r

    def random_sample_object_of_size(self, c, n, **p):
        return next(c.objects_of_size(n, **p))

    def formal_step(self):
        return "is atom"

    def to_jsonable(self):
        d = super().to_jsonable()
        return d

    @classmethod
    def from_dict(cls, d):
        return cls(**d)


def swap_word(w):
    return W("".join({"a": "b", "b": "a"}.get(x, x) for x in w))


class Swap(Simple, SymmetryStrategy[WC, W]):
    """a <-> b on two-letter alphabets (statistics follow their letters)."""

    def decomposition_function(self, c):
        if c.alphabet not in (("a", "b"), ("a", "b", "c")):
            return None
        return (c.with_(prefix=swap_word(c.prefix), patterns=[swap_word(p) for p in c.patterns],
                        stats=[(n, swap_word(l)) for n, l in c.stats]),)

    def extra_parameters(self, c, children=None):
        if children is None:
            children = self.decomposition_function(c)
        return same_params(c, children)

    def formal_step(self):
        return "swap letters"

    def forward_map(self, c, w, children=None):
        return (swap_word(w),)

    def backward_map(self, c, objs, children=None):
        yield swap_word(objs[0])


class SwapMarked(Swap):
    """The swap symmetry from a strategy that says its one-child rules are *not* equivalences (can_be_equivalent False):
    the classes it joins share an equivalence label in the rule database, but a specification must keep the rule as a rule
    (this is what EqPathParallelSpecFinder exists for: 'nonequivalent classes sharing equivalence labels')."""

    def can_be_equivalent(self):
        return False

    def formal_step(self):
        return "swap letters (not an equivalence)"

    def __repr__(self):
        return "SwapMarked()"


def cycle_word(w, k=1):
    m = {"a": "b", "b": "c", "c": "a"}
    for _ in range(k):
        w = "".join(m.get(x, x) for x in w)
    return W(w)


class Cycle(Simple, SymmetryStrategy[WC, W]):
    """a -> b -> c -> a on three-letter alphabets: with Swap it generates a non-commutative group, so the
    order in which an equivalence path applies its maps matters."""

    def decomposition_function(self, c):
        if c.alphabet != ("a", "b", "c"):
            return None
        return (c.with_(prefix=cycle_word(c.prefix), patterns=[cycle_word(p) for p in c.patterns],
                        stats=[(n, cycle_word(l)) for n, l in c.stats]),)

    def extra_parameters(self, c, children=None):
        if children is None:
            children = self.decomposition_function(c)
        return same_params(c, children)

    def formal_step(self):
        return "cycle letters"

    def forward_map(self, c, w, children=None):
        return (cycle_word(w),)

    def backward_map(self, c, objs, children=None):
        yield cycle_word(objs[0], 2)


def future_letters(c, q):
    """letters that can still follow the prefix q in a word of the class: a sound over-approximation (only single-letter
    and two-letter patterns are used): the letters reachable from the last letter of q through allowed successions"""
    ok = [x for x in c.alphabet if x not in c.patterns]
    if not q:
        return set(ok)
    nxt = {x: {y for y in ok if x + y not in c.patterns} for x in c.alphabet}
    seen, frontier = set(), set(nxt.get(q[-1], set()))
    while frontier:
        seen |= frontier
        frontier = set().union(*[nxt[x] for x in frontier]) - seen
    return seen


class ExpandTrim(Simple, DisjointUnionStrategy[WC, W]):
    """C(p) = C(p.z) + ... + C(p.a) + {p}: like Expand, with the children in the opposite order (the atom last) and
    every child dropping the statistics that can only be 0 on it (no letter of the statistic occurs in its prefix or
    can still follow): children of one union then carry different parameter sets, and a parent parameter that is
    not passed to a child must be 0 there."""

    def __init__(self, always=False, ignore_parent=False, inferrable=True, possibly_empty=True, workable=True):
        # always: apply to every non-atom class (then it is Expand with the children in the opposite order)
        self.always = always
        super().__init__(ignore_parent=ignore_parent, inferrable=inferrable, possibly_empty=possibly_empty, workable=workable)

    def to_jsonable(self):
        d = super().to_jsonable()
        d["always"] = self.always
        return d

    def __repr__(self):
        return "ExpandTrim(always=%s)" % self.always

    def _kept(self, c, child_prefix, atom):
        fut = set() if atom else future_letters(c, child_prefix)
        keep = []
        for n, l in c.stats:
            if set(l) & (set(child_prefix) | fut):
                keep.append((n, l))
        return tuple(keep)

    def decomposition_function(self, c):
        if c.just_prefix or (not c.stats and not self.always):
            return None
        kids = [c.with_(prefix=c.prefix + a, stats=self._kept(c, c.prefix + a, False)) for a in reversed(c.alphabet)]
        kids.append(c.with_(just_prefix=True, stats=self._kept(c, c.prefix, True)))
        if all(k.stats == c.stats for k in kids) and not self.always:
            return None
        return tuple(kids)

    def extra_parameters(self, c, children=None):
        if children is None:
            children = self.decomposition_function(c)
        return tuple({n: n for n, _ in ch.stats} for ch in children)

    def formal_step(self):
        return "expand by next letter, trimming statistics"

    def forward_map(self, c, w, children=None):
        if children is None:
            children = self.decomposition_function(c)
        k = len(c.alphabet)
        idx = k if len(w) == len(c.prefix) else (k - 1 - c.alphabet.index(w[len(c.prefix)]))
        return tuple(w if i == idx else None for i in range(len(children)))



class ExpandMerge(Simple, DisjointUnionStrategy[WC, W]):
    """C(p) = {p} + C(p.a) + C(p.b) + ... where a child on which two statistics can only take the same value (they agree on
    the child's prefix and no letter in which they differ can still follow) keeps one of them: several parent statistics are
    mapped onto one child statistic, on some children only - so the parent has objects (from the other children) on which
    the merged statistics differ."""

    def __init__(self, ignore_parent=False, inferrable=True, possibly_empty=True, workable=True):
        super().__init__(ignore_parent=ignore_parent, inferrable=inferrable, possibly_empty=possibly_empty, workable=workable)

    @staticmethod
    def _groups(c, q, atom):
        """for the child with prefix q: parent statistic name -> name of the statistic that represents it on the child"""
        fut = set() if atom else future_letters(c, q)
        rep = {}
        kept = []
        for n, l in c.stats:
            for m, l2 in kept:
                if sum(x in l for x in q) == sum(x in l2 for x in q) and not ((set(l) ^ set(l2)) & fut):
                    rep[n] = m
                    break
            else:
                kept.append((n, l))
                rep[n] = n
        return rep, tuple(kept)

    def _children(self, c):
        out = [(c.prefix, True)] + [(c.prefix + a, False) for a in c.alphabet]
        return [(q, atom) + self._groups(c, q, atom) for q, atom in out]

    def decomposition_function(self, c):
        if c.just_prefix or len(c.stats) < 2:
            return None
        kids = self._children(c)
        if all(len(kept) == len(c.stats) for _, _, _, kept in kids):
            return None
        return tuple(c.with_(prefix=q, just_prefix=atom, stats=kept) for q, atom, _, kept in kids)

    def extra_parameters(self, c, children=None):
        return tuple(dict(rep) for _, _, rep, _ in self._children(c))

    def formal_step(self):
        return "expand by next letter, merging statistics that coincide on a child"

    def forward_map(self, c, w, children=None):
        idx = 0 if len(w) == len(c.prefix) else 1 + c.alphabet.index(w[len(c.prefix)])
        return tuple(w if i == idx else None for i in range(len(c.alphabet) + 1))

    def __repr__(self):
        return "ExpandMerge()"


class RemoveFrontLax(RemoveFront):
    """RemoveFront whose second factor declares the lax minimum size 1 although its prefix has two or more letters (the
    documented contract of minimum_size_of_object allows any lower bound >= 1): the parent's declared minimum is then larger
    than the sum of its children's, and shifts must come from the children's declarations."""

    def decomposition_function(self, c):
        kids = RemoveFront.decomposition_function(self, c)
        if kids is None or len(kids[1].prefix) < 2:
            return None
        return (kids[0], kids[1].with_(hidden="lax"))

    def formal_step(self):
        return "remove front of prefix (the rest declares a lax minimum size)"

    def __repr__(self):
        return "RemoveFrontLax()"


class RemoveFrontHidden(RemoveFront):
    """RemoveFront whose first factor is a *hidden* atom: a one-word class that does not say it is an atom, so the
    product has two factors without a known maximum size and the first has no objects at most sizes."""

    def decomposition_function(self, c):
        kids = super().decomposition_function(c)
        if kids is None:
            return None
        return (kids[0].with_(just_prefix=True, hidden=True), kids[1])

    def formal_step(self):
        return "remove front of prefix (hidden atom)"


class HiddenAtomVerified(Simple, VerificationStrategy[WC, W]):
    """Verifies hidden atoms by brute force."""

    def __init__(self, ignore_parent=True):
        super().__init__(ignore_parent=ignore_parent)

    def verified(self, c):
        return c.just_prefix and c.hidden and not c.is_empty()

    def get_terms(self, c, n):
        return c.get_terms(n)

    def get_objects(self, c, n):
        return c.get_objects(n)

    def get_genf(self, c, funcs=None):
        r = sympy.var("x") ** len(c.prefix)
        for (n, _), v in zip(c.stats, c.get_parameters(c.prefix)):
            r *= sympy.var(n) ** v
        return r

    def random_sample_object_of_size(self, c, n, **p):
        return next(c.objects_of_size(n, **p))

    def formal_step(self):
        return "is a hidden atom"

    @classmethod
    def from_dict(cls, d):
        return cls(**d)


class ExpandTrimRename(ExpandTrim):
    """ExpandTrim where a child that keeps exactly one statistic names it 'z': two children then use the same name for
    their own statistic although it comes from different parent statistics, and a parent statistic is renamed while
    another is not passed at all."""

    def decomposition_function(self, c):
        kids = ExpandTrim.decomposition_function(self, c)
        if kids is None:
            return None
        out = []
        for k in kids:
            out.append(k.with_(stats=[("z", k.stats[0][1])], just_prefix=k.just_prefix) if len(k.stats) == 1 and len(c.stats) >= 2 else k)
        if all(a == b for a, b in zip(out, kids)):
            return None
        return tuple(out)

    def extra_parameters(self, c, children=None):
        plain = ExpandTrim.decomposition_function(self, c)
        if children is None:
            children = self.decomposition_function(c)
        res = []
        for orig, ch in zip(plain, children):
            if ch.stats and ch.stats[0][0] == "z" and len(orig.stats) == 1:
                res.append({orig.stats[0][0]: "z"})
            else:
                res.append({n: n for n, _ in ch.stats})
        return tuple(res)

    def formal_step(self):
        return "expand by next letter, trimming and renaming statistics"

    def __repr__(self):
        return "ExpandTrimRename(always=%s)" % self.always


class ParentThenOwnFactory(StrategyFactory[WC]):
    """In one call on a class C(p.x): first a ready rule for the *other* class C(p), then a strategy for the class itself."""

    def __call__(self, c):
        if not c.just_prefix and len(c.prefix) >= 1:
            yield Expand()(c.with_(prefix=c.prefix[:-1]))
        if not c.just_prefix:
            yield Expand()

    def __str__(self):
        return "parent-then-own factory"

    def __repr__(self):
        return "ParentThenOwnFactory()"

    @classmethod
    def from_dict(cls, d):
        return cls()


class RenameStats(Simple, DisjointUnionStrategy[WC, W]):
    """inferral: the same class with its statistics renamed k_i -> k_(i-1) style (a non-involutive renaming: the child
    names overlap the parent names but are shifted), so that parameter maps are genuine renamings."""

    def __init__(self, ignore_parent=True, inferrable=True, possibly_empty=False, workable=True):
        super().__init__(ignore_parent=ignore_parent, inferrable=inferrable, possibly_empty=possibly_empty, workable=workable)

    @staticmethod
    def _renamed(c):
        names = [n for n, _ in c.stats]
        if not names or not all(n.startswith("k") and n[1:].isdigit() for n in names):
            return None
        if min(int(n[1:]) for n in names) <= 0:
            return None
        return {n: "k%d" % (int(n[1:]) - 1) for n in names}

    def decomposition_function(self, c):
        m = self._renamed(c)
        if m is None:
            return None
        return (c.with_(stats=[(m[n], l) for n, l in c.stats]),)

    def extra_parameters(self, c, children=None):
        return (self._renamed(c),)

    def formal_step(self):
        return "rename statistics"

    def forward_map(self, c, w, children=None):
        return (w,)

    def __repr__(self):
        return "RenameStats()"

    @classmethod
    def from_dict(cls, d):
        return cls(**d)


class EmptyThenRename(RenameStats):
    """C(p) = C(p avoiding also the letter p[0]) + C(p) with renamed statistics: the first child is empty (its prefix
    contains a forbidden letter) and carries no statistic, the only non-empty child is the *second* one and its
    parameter map is a genuine renaming - so the equivalence forms of this rule and of its reverse have to pick the
    map of the right child."""

    def decomposition_function(self, c):
        kids = RenameStats.decomposition_function(self, c)
        if kids is None or not c.prefix or c.just_prefix:
            return None
        return (c.with_(patterns=tuple(c.patterns) + (c.prefix[0],), stats=()),) + kids

    def extra_parameters(self, c, children=None):
        return ({}, self._renamed(c))

    def formal_step(self):
        return "words without the first letter of the prefix (none), or the rest with renamed statistics"

    def forward_map(self, c, w, children=None):
        return (None, w)

    def __repr__(self):
        return "EmptyThenRename()"


class RemoveFrontRename(RemoveFront):
    """RemoveFront whose second factor carries the statistics under swapped names (k1 <-> k2): the child's names
    overlap the parent's in a crossed way."""

    def decomposition_function(self, c):
        kids = super().decomposition_function(c)
        names = [n for n, _ in c.stats]
        if kids is None or len(names) != 2:
            return None
        a, b = names
        sw = {a: b, b: a}
        return (kids[0], kids[1].with_(stats=sorted((sw[n], l) for n, l in c.stats)))

    def extra_parameters(self, c, children=None):
        names = [n for n, _ in c.stats]
        a, b = names
        return ({a: a, b: b}, {a: b, b: a})

    def formal_step(self):
        return "remove front of prefix, renaming statistics"


class RemoveFrontMerge(RemoveFront):
    """RemoveFront whose second factor keeps one statistic for every group of statistics that can only take the same value
    on it (they agree on its prefix and no letter in which they differ can still follow): a factor of a product onto whose
    single statistic several parent statistics are mapped, while the first factor (the removed front) keeps them apart."""

    def decomposition_function(self, c):
        kids = RemoveFront.decomposition_function(self, c)
        if kids is None or len(c.stats) < 2:
            return None
        rep, kept = ExpandMerge._groups(kids[1], kids[1].prefix, False)
        if len(kept) == len(c.stats):
            return None
        return (kids[0], kids[1].with_(stats=kept))

    def extra_parameters(self, c, children=None):
        kids = RemoveFront.decomposition_function(self, c)
        rep, _ = ExpandMerge._groups(kids[1], kids[1].prefix, False)
        return ({n: n for n, _ in c.stats}, dict(rep))

    def formal_step(self):
        return "remove front of prefix, merging statistics that coincide on the rest"

    def __repr__(self):
        return "RemoveFrontMerge()"


class SplitMonotone(Simple, CartesianProductStrategy[WC, W]):
    """A product of two non-atoms (several size compositions): words over {a,b} avoiding ba are a^i b^j,
    C('', {ba}) = C('', {b}) x C('', {a})."""

    def __init__(self, ignore_parent=False, inferrable=False, possibly_empty=False, workable=True):
        super().__init__(ignore_parent=ignore_parent, inferrable=inferrable, possibly_empty=possibly_empty, workable=workable)

    def decomposition_function(self, c):
        if c.just_prefix or c.prefix != "" or c.alphabet != ("a", "b") or set(c.patterns) != {"ba"}:
            return None
        return (c.with_(patterns=["b"]), c.with_(patterns=["a"]))

    def extra_parameters(self, c, children=None):
        if children is None:
            children = self.decomposition_function(c)
        return same_params(c, children)

    def formal_step(self):
        return "split a*b* into a* and b*"

    def backward_map(self, c, ws, children=None):
        yield W(ws[0] + ws[1])

    def forward_map(self, c, w, children=None):
        i = len(w) - len(w.lstrip("a"))
        return W(w[:i]), W(w[i:])

    def __repr__(self):
        return "SplitMonotone()"

    @classmethod
    def from_dict(cls, d):
        return cls(**d)


class RemoveThenExpandFactory(StrategyFactory[WC]):
    """A factory yielding several strategies, the first of which often does not apply."""

    def __call__(self, c):
        yield RemoveFront()
        # Expand only where RemoveFront does not apply, so that prefixes stay bounded (a finite universe)
        if not c.just_prefix and RemoveFront().decomposition_function(c) is None:
            yield Expand()

    def __str__(self):
        return "remove-then-expand factory"

    def __repr__(self):
        return "RemoveThenExpandFactory()"

    @classmethod
    def from_dict(cls, d):
        return cls()


class LookaheadFactory(StrategyFactory[WC]):
    """Eager one-step look-ahead: for a class C it yields (for the class with empty prefix only) the strategy Expand and,
    for every non-empty non-atom child D of C's expansion, the *ready rule* Expand()(D) - a rule whose parent and children do not include the class the factory
    was applied to (the searcher supports rules of other classes; a database that recomputes rules must find them too)."""

    def __call__(self, c):
        if c.just_prefix:
            return
        if not c.prefix:
            yield Expand()  # only the class with empty prefix gets its own expansion: every other rule is a look-ahead rule
        for d in Expand().decomposition_function(c):
            if not d.just_prefix and not d.is_empty() and RemoveFront().decomposition_function(d) is None:
                yield Expand()(d)

    def __str__(self):
        return "look-ahead expansion factory"

    def __repr__(self):
        return "LookaheadFactory()"

    @classmethod
    def from_dict(cls, d):
        return cls()


class RedundantParentFactory(StrategyFactory[WC]):
    """Yields, for a class C with exactly one redundant pattern, the ready single-child rule  C' -> C  (AddRedundant
    applied to the minimal class C'): the class being expanded is the *child* of the rule it gets."""

    def __call__(self, c):
        if c.just_prefix:
            return
        mins = [p for p in c.patterns if not any(q != p and q in p for q in c.patterns)]
        if len(mins) + 1 == len(c.patterns):
            cmin = c.with_(patterns=mins)
            kids = AddRedundant().decomposition_function(cmin)
            if kids is not None and kids[0] == c:
                yield AddRedundant()(cmin)

    def __str__(self):
        return "redundant parent factory"

    def __repr__(self):
        return "RedundantParentFactory()"

    @classmethod
    def from_dict(cls, d):
        return cls()


class RedundantParentExpandFactory(RedundantParentFactory):
    """RedundantParentFactory that also yields the ready expansion rule of the minimal class C' (another foreign-parent
    rule): C' itself is never queued, so this is its only rule; its children are queued and expanded as usual."""

    def __call__(self, c):
        for rule in RedundantParentFactory.__call__(self, c):
            yield rule
            yield Expand()(rule.comb_class)

    def __str__(self):
        return "redundant parent + expansion factory"

    def __repr__(self):
        return "RedundantParentExpandFactory()"


class BruteVerified(VerificationStrategy[WC, W]):
    """Verifies by brute force (no pack) the non-atom classes with a minimal pattern set and prefix of length <= k."""

    def __init__(self, k=0, ignore_parent=True):
        self.k = k
        super().__init__(ignore_parent=ignore_parent)

    def verified(self, c):
        minimal = not any(q != p and q in p for p in c.patterns for q in c.patterns)
        return not c.just_prefix and not c.is_empty() and len(c.prefix) <= self.k and minimal

    def get_terms(self, c, n):
        return c.get_terms(n)

    def get_objects(self, c, n):
        return c.get_objects(n)

    def random_sample_object_of_size(self, c, n, **p):
        return RNG.choice(list(c.objects_of_size(n, **p)))

    def formal_step(self):
        return "brute force, prefix <= %d" % self.k

    def to_jsonable(self):
        d = super().to_jsonable()
        d["k"] = self.k
        return d

    @classmethod
    def from_dict(cls, d):
        return cls(**d)

    def __repr__(self):
        return "BruteVerified(k=%d)" % self.k



class MinimizePatterns(Simple, DisjointUnionStrategy[WC, W]):
    """inferral: drop patterns that contain another pattern as a factor (same objects)"""

    def __init__(self, ignore_parent=True, inferrable=True, possibly_empty=False, workable=True):
        super().__init__(ignore_parent=ignore_parent, inferrable=inferrable, possibly_empty=possibly_empty, workable=workable)

    def decomposition_function(self, c):
        mins = [p for p in c.patterns if not any(q != p and q in p for q in c.patterns)]
        if len(mins) == len(c.patterns):
            return None
        return (c.with_(patterns=mins),)

    def extra_parameters(self, c, children=None):
        if children is None:
            children = self.decomposition_function(c)
        return same_params(c, children)

    def formal_step(self):
        return "minimize patterns"

    def forward_map(self, c, w, children=None):
        return (w,)

    def __repr__(self):
        return "MinimizePatterns()"

    @classmethod
    def from_dict(cls, d):
        return cls(**d)


class MinimizeMarked(MinimizePatterns):
    """MinimizePatterns from a strategy that says its one-child rules are not equivalences (can_be_equivalent False): the
    redundant and the minimal class share an equivalence label, but a specification keeps the rule between them as a rule."""

    def can_be_equivalent(self):
        return False

    def formal_step(self):
        return "minimize patterns (not an equivalence)"

    def __repr__(self):
        return "MinimizeMarked()"


class MinimizeOneWay(MinimizePatterns):
    """The same rule as MinimizePatterns (redundant class -> minimal class) from a strategy that declares itself one-way
    (reversible, not two-way): together with MinimizePatterns the same (parent, child) key is produced once as a one-way
    rule and once as a two-way equivalence, in either order."""

    def __init__(self, ignore_parent=False, inferrable=True, possibly_empty=False, workable=True):
        super().__init__(ignore_parent=ignore_parent, inferrable=inferrable, possibly_empty=possibly_empty, workable=workable)

    def is_two_way(self, comb_class):
        return False

    def formal_step(self):
        return "minimize patterns (one way)"

    def __repr__(self):
        return "MinimizeOneWay()"


class AddRedundant(Simple, DisjointUnionStrategy[WC, W]):
    """A one-way single-child rule (the strategy declares itself not two-way): a class with a minimal
    pattern set is the class with one redundant pattern added (same objects).  Together with
    MinimizePatterns (two-way, in the other direction) the same pair of classes gets first a one-way
    and then a two-way rule."""

    def __init__(self, ignore_parent=False, inferrable=True, possibly_empty=False, workable=True):
        super().__init__(ignore_parent=ignore_parent, inferrable=inferrable, possibly_empty=possibly_empty, workable=workable)

    def is_two_way(self, comb_class):
        return False

    def decomposition_function(self, c):
        if not c.patterns or c.just_prefix:
            return None
        if any(q != p and q in p for p in c.patterns for q in c.patterns):
            return None  # already redundant
        p = c.patterns[0]
        return (c.with_(patterns=list(c.patterns) + [p + p[-1]]),)

    def extra_parameters(self, c, children=None):
        if children is None:
            children = self.decomposition_function(c)
        return same_params(c, children)

    def formal_step(self):
        return "add a redundant pattern"

    def forward_map(self, c, w, children=None):
        return (w,)

    def __repr__(self):
        return "AddRedundant()"

    @classmethod
    def from_dict(cls, d):
        return cls(**d)


class MergeStats(Simple, DisjointUnionStrategy[WC, W]):
    """inferral: statistics with the same letter set are merged into one child statistic (several
    parent statistics map onto it); statistics that can only be 0 are dropped by the child."""

    def __init__(self, ignore_parent=True, inferrable=True, possibly_empty=False, workable=True):
        super().__init__(ignore_parent=ignore_parent, inferrable=inferrable, possibly_empty=possibly_empty, workable=workable)

    @staticmethod
    def _plan(c):
        usable = set(c.alphabet) - {p for p in c.patterns if len(p) == 1}
        usable |= set(c.prefix)
        keep, mapping, seen = [], {}, {}
        for n, l in c.stats:
            eff = "".join(sorted(set(l) & usable))
            if not eff:
                continue  # always zero: dropped, the parent variable maps to nothing
            if eff in seen:
                mapping[n] = seen[eff]
            else:
                seen[eff] = n
                mapping[n] = n
                keep.append((n, l))
        return tuple(keep), mapping

    def decomposition_function(self, c):
        keep, _ = self._plan(c)
        if len(keep) == len(c.stats):
            return None
        return (c.with_(stats=keep),)

    def extra_parameters(self, c, children=None):
        return (self._plan(c)[1],)

    def formal_step(self):
        return "merge statistics"

    def forward_map(self, c, w, children=None):
        return (w,)

    def __repr__(self):
        return "MergeStats()"

    @classmethod
    def from_dict(cls, d):
        return cls(**d)


class ExpandFactory(StrategyFactory[WC]):
    """A factory yielding strategies."""

    def __call__(self, c):
        if not c.just_prefix:
            yield Expand()

    def __str__(self):
        return "expand factory"

    def __repr__(self):
        return "ExpandFactory()"

    @classmethod
    def from_dict(cls, d):
        return cls()


class ParentRuleFactory(StrategyFactory[WC]):
    """A factory yielding ready rules whose parent differs from the expanded class: expanding
    C(p.x) yields the rule  C(p) = {p} + C(pa) + C(pb) + ..."""

    def __call__(self, c):
        if not c.just_prefix and len(c.prefix) >= 1:
            yield Expand()(c.with_(prefix=c.prefix[:-1]))

    def __str__(self):
        return "parent rule factory"

    def __repr__(self):
        return "ParentRuleFactory()"

    @classmethod
    def from_dict(cls, d):
        return cls()


class PrefixVerified(VerificationStrategy[WC, W]):
    """Verifies every non-atom class whose prefix has at least k letters; supplies a pack."""

    def __init__(self, k=1, ignore_parent=True):
        self.k = k
        super().__init__(ignore_parent=ignore_parent)

    def verified(self, c):
        return not c.just_prefix and not c.is_empty() and len(c.prefix) >= self.k

    def pack(self, c):
        return basic_pack()

    def get_terms(self, c, n):
        return c.get_terms(n)

    def get_objects(self, c, n):
        return c.get_objects(n)

    def random_sample_object_of_size(self, c, n, **p):
        return RNG.choice(list(c.objects_of_size(n, **p)))

    def formal_step(self):
        return "prefix of length >= %d" % self.k

    def to_jsonable(self):
        d = super().to_jsonable()
        d["k"] = self.k
        return d

    @classmethod
    def from_dict(cls, d):
        return cls(**d)

    def __repr__(self):
        return "PrefixVerified(k=%d)" % self.k


class PrefixVerifiedByPack(PrefixVerified):
    """PrefixVerified that counts and generates the way the library does by default: through a specification found with its
    own pack (every use of a specification containing it runs a search from inside the strategy)."""

    get_terms = VerificationStrategy.get_terms
    get_objects = VerificationStrategy.get_objects

    def formal_step(self):
        return "prefix of length >= %d (counted through its pack)" % self.k

    def __repr__(self):
        return "PrefixVerifiedByPack(k=%d)" % self.k


class PrefixVerifiedNested(PrefixVerified):
    """Verifies the classes whose prefix has exactly k letters; the pack it supplies itself contains a pack-supplying
    verification strategy (for prefixes of >= inner letters, inner > k), so the expansion of a verified class brings in
    verified classes that the original specification never contained."""

    def __init__(self, k=1, inner=3, ignore_parent=True):
        self.inner = inner
        super().__init__(k, ignore_parent=ignore_parent)

    def verified(self, c):
        return not c.just_prefix and not c.is_empty() and len(c.prefix) == self.k

    def pack(self, c):
        return make_pack(prefix_verified=self.inner, no_initial=True, name="nested")

    def to_jsonable(self):
        d = super().to_jsonable()
        d["inner"] = self.inner
        return d

    def __repr__(self):
        return "PrefixVerifiedNested(k=%d, inner=%d)" % (self.k, self.inner)


class PrefixVerifiedRev(PrefixVerified):
    """Like PrefixVerified, but the pack it supplies reaches the class only through a reverse rule
    (C(p.x) is obtained from the rule of C(p) by complement), so expanding needs reverse rules."""

    def verified(self, c):
        return not c.just_prefix and not c.is_empty() and len(c.prefix) == self.k

    def pack(self, c):
        return make_pack(parent_factory=True, expand=False, empty_prefix_verified=True, name="needrev")

    def __repr__(self):
        return "PrefixVerifiedRev(k=%d)" % self.k


from comb_spec_searcher.typing import CombinatorialClassType, CombinatorialObjectType  # noqa: E402


class GenericVerified(VerificationStrategy[CombinatorialClassType, CombinatorialObjectType]):
    """A user strategy that is still generic, so that GenericVerified[WC, W](k) is a legal way to create it."""

    def __init__(self, k=1, ignore_parent=True):
        self.k = k
        super().__init__(ignore_parent=ignore_parent)

    def verified(self, c):
        return len(c.prefix) >= self.k

    def formal_step(self):
        return "generic verified"

    def to_jsonable(self):
        d = super().to_jsonable()
        d["k"] = self.k
        return d

    @classmethod
    def from_dict(cls, d):
        return cls(**d)


class EmptyPrefixVerified(Simple, VerificationStrategy[WC, W]):
    """Verifies the classes with empty prefix by brute force (no pack): used to build universes in
    which other classes are only reachable through reverse rules."""

    def __init__(self, ignore_parent=True):
        super().__init__(ignore_parent=ignore_parent)

    def verified(self, c):
        return not c.just_prefix and c.prefix == "" and not c.is_empty()

    def get_terms(self, c, n):
        return c.get_terms(n)

    def get_objects(self, c, n):
        return c.get_objects(n)

    def random_sample_object_of_size(self, c, n, **p):
        return RNG.choice(list(c.objects_of_size(n, **p)))

    def formal_step(self):
        return "empty prefix, brute force"

    @classmethod
    def from_dict(cls, d):
        return cls(**d)


def basic_pack(**kw):
    return make_pack(**kw)


def make_pack(sym=False, inf=False, merge=False, iterative=False, factory=False, parent_factory=False,
              prefix_verified=None, prefix_verified_rev=None, empty_prefix_verified=False, two_sets=False, no_initial=False, name=None, expand=True,
              split=False, oneway=False, lazy=False, trim=False, rename=False, mono=False, fac2=False, cycle=False,
              redundant_parent=False, brute=None, trimonly=False, hidden=False, trimrename=False, pfactory2=False, noinf=False, redpar=False, prefix_verified_nested=None, expand2=False, lookahead=False, ow2=None, sym_marked=False, inf_marked=False, fold=False, swapexp=False, prefix_verified_bypack=None):
    inferral = ([MinimizeMarked()] if inf_marked else [MinimizePatterns()] if inf else []) + ([MergeStats()] if merge else []) + ([RenameStats()] if rename else [])
    exp = [ExpandFactory()] if factory else [Expand()]
    if parent_factory:
        exp = (exp if expand else []) + [ParentRuleFactory()]
    if expand2:
        exp = exp + [Expand2()]
    if oneway:
        exp = exp + [AddRedundant()]
    if trim:
        exp = [ExpandTrim()] + exp
    if trimonly:
        exp = [ExpandTrim(always=True)]
    if trimrename:
        exp = [ExpandTrimRename()] + exp
    if pfactory2:
        exp = [ParentThenOwnFactory()]
    if noinf:
        exp = [Expand(inferrable=False)]
    if fac2:
        exp = [RemoveThenExpandFactory()]
    if redundant_parent:
        exp = [RedundantParentFactory()]
    if redpar:
        exp = [RedundantParentExpandFactory(), ExpandMinimal()]
    if lookahead:
        exp = [LookaheadFactory()]
    if fold:
        exp = [FoldSwap(), ExpandUnlessFoldable()]
    if swapexp:
        # an involutive two-way strategy among the expansion strategies: a <-> b is inserted, and later b <-> a
        exp = exp + [Swap(workable=True)]
    expansion = [exp]
    if two_sets:
        expansion = [[RemoveFront()], exp] if no_initial else [exp, [ExpandFactory()]]
    ver = [WAtom()]
    if prefix_verified is not None:
        ver.append(PrefixVerified(prefix_verified))
    if prefix_verified_rev is not None:
        ver.append(PrefixVerifiedRev(prefix_verified_rev))
    if prefix_verified_bypack is not None:
        ver.append(PrefixVerifiedByPack(prefix_verified_bypack))
    if prefix_verified_nested is not None:
        ver.append(PrefixVerifiedNested(*prefix_verified_nested))
    if empty_prefix_verified:
        ver.append(EmptyPrefixVerified())
    if brute is not None:
        ver.append(BruteVerified(brute))
    nm = name or "w%s%s%s%s%s%s" % ("-sym" if sym else "", "-inf" if inf else "", "-merge" if merge else "",
                                    "-it" if iterative else "", "-fac" if factory else "", "-pfac" if parent_factory else "")
    initial = [] if no_initial else ([SplitFront(), RemoveFront()] if split else [RemoveFront()])
    if mono:
        initial = [SplitMonotone()] + initial
    if hidden and not no_initial:
        initial = [RemoveFrontHidden()]
        ver.append(HiddenAtomVerified())
    if rename and not no_initial:
        initial = [RemoveFrontRename()] + initial
    if fac2:
        initial = []
    if lazy and not no_initial:
        # not ignore_parent: the queue must still hand out the strict strategy for the same class afterwards
        initial = [RemoveFrontLazy(ignore_parent=False)] + initial
    if ow2 == "a":    # the one-way strategy first in pack order (initial), the two-way one later (expansion)
        initial = [MinimizeOneWay()] + initial
        expansion = [expansion[0] + [MinimizePatterns(ignore_parent=False)]] + expansion[1:]
    elif ow2 == "b":  # the two-way strategy first, the one-way one later: the same key ends up in both stores
        initial = [MinimizePatterns(ignore_parent=False)] + initial
        expansion = [expansion[0] + [MinimizeOneWay()]] + expansion[1:]
    return StrategyPack(initial_strats=initial, inferral_strats=inferral,
                        expansion_strats=expansion, ver_strats=ver, name=nm,
                        symmetries=([SwapMarked()] if sym_marked else [Swap()] if sym else []) + ([Cycle()] if cycle else []), iterative=iterative)
