"""Fixture universe T: classes of *parse trees* of a small system of equations, one rule per class.

A system is a tuple of nodes, node i (1-based class id) = (kind, children, size):
  ("U", (c1, .., ck), 0)   disjoint union of the children classes (the objects carry the branch they come from),
  ("P", (c1, .., ck), 0)   cartesian product,
  ("A", (), s)             an atom: one object of size s (s = 0: the empty object).
Every productive system (no class has infinitely many objects of one size, no class is empty) is a genuine
combinatorial specification of its own parse trees: the objects of a union class are the tagged objects of its children,
so the children of a union are disjoint by construction, and the strategies below are honest bijections.  TLC chooses the
systems (MC_TreeSystems exports every productive one up to the bounds); the library's isomorphism test and bijections are
then run on the *real* specification objects built from them.

An object is the tuple (tag, class, branch, subobjects): ("a", c, 0, ()), ("u", c, i, (sub,)), ("p", c, 0, (sub1, .., subk)).
"""
import itertools
from functools import lru_cache
from typing import Tuple

from comb_spec_searcher import (
    AtomStrategy,
    CartesianProductStrategy,
    CombinatorialClass,
    CombinatorialObject,
    DisjointUnionStrategy,
)


class TObj(tuple, CombinatorialObject):
    def size(self):
        return tsize(self)


def tsize(o) -> int:
    tag, c, i, subs = tuple.__getitem__(o, 0), tuple.__getitem__(o, 1), tuple.__getitem__(o, 2), tuple.__getitem__(o, 3)
    if tag == "a":
        return int(i)  # for atoms the third field holds the size
    return sum(tsize(s) for s in subs)


def mk(tag, c, i, subs):
    return TObj((tag, c, i, tuple(subs)))


@lru_cache(maxsize=None)
def objects(system, c, n) -> Tuple:
    """All objects of class c (1-based) of size n; the system must be productive."""
    kind, ch, sz = system[c - 1]
    if kind == "A":
        return (mk("a", c, sz, ()),) if n == sz else ()
    # only sizes that give every child at least its minimum size are expanded: the recursion then strictly decreases
    if kind == "U":
        return tuple(mk("u", c, i + 1, (s,)) for i, d in enumerate(ch) if min_size(system, d) <= n for s in objects(system, d, n))
    out = []
    for split in compositions(n, len(ch)):
        if any(k < min_size(system, d) for d, k in zip(ch, split)):
            continue
        parts = [objects(system, d, k) for d, k in zip(ch, split)]
        if all(parts):
            out += [mk("p", c, 0, combo) for combo in itertools.product(*parts)]
    return tuple(out)


def compositions(n, k):
    if k == 0:
        if n == 0:
            yield ()
        return
    for first in range(n + 1):
        for rest in compositions(n - first, k - 1):
            yield (first,) + rest


@lru_cache(maxsize=None)
def min_size(system, c) -> int:
    inf = 10 ** 6
    ms = [inf] * len(system)
    for _ in range(len(system) + 1):
        for i, (kind, ch, sz) in enumerate(system):
            if kind == "A":
                ms[i] = sz
            elif kind == "U":
                ms[i] = min([ms[d - 1] for d in ch] + [inf])
            else:
                ms[i] = min(inf, sum(ms[d - 1] for d in ch))
    return ms[c - 1]


class TC(CombinatorialClass[TObj]):
    def __init__(self, system, c, side=""):
        self.system, self.c, self.side = system, int(c), side
        super().__init__()

    def is_empty(self):
        return False

    def is_atom(self):
        return self.system[self.c - 1][0] == "A"

    def minimum_size_of_object(self):
        return min_size(self.system, self.c)

    def objects_of_size(self, n, **parameters):
        yield from objects(self.system, self.c, n)

    def to_jsonable(self):
        d = super().to_jsonable()
        d.update(system=[[k, list(ch), sz] for k, ch, sz in self.system], c=self.c, side=self.side)
        return d

    @classmethod
    def from_dict(cls, d):
        return cls(tuple((k, tuple(ch), sz) for k, ch, sz in d["system"]), d["c"], d.get("side", ""))

    def key(self):
        return (self.system, self.c, self.side)

    def __eq__(self, o):
        return isinstance(o, TC) and self.key() == o.key()

    def __hash__(self):
        return hash(self.key())

    def __repr__(self):
        return "TC(%s%d)" % (self.side, self.c)

    __str__ = __repr__

    def child(self, d):
        return TC(self.system, d, self.side)


class TUnion(DisjointUnionStrategy[TC, TObj]):
    def decomposition_function(self, c):
        kind, ch, _ = c.system[c.c - 1]
        return tuple(c.child(d) for d in ch) if kind == "U" else None

    def formal_step(self):
        return "union of the branches"

    def forward_map(self, c, obj, children=None):
        i = tuple.__getitem__(obj, 2)
        sub = tuple.__getitem__(obj, 3)[0]
        n = len(c.system[c.c - 1][1])
        return tuple(sub if j + 1 == i else None for j in range(n))

    def backward_map(self, c, objs, children=None):
        for j, o in enumerate(objs):
            if o is not None:
                yield mk("u", c.c, j + 1, (o,))
                return

    @classmethod
    def from_dict(cls, d):
        return cls()

    def __repr__(self):
        return "TUnion()"

    __str__ = __repr__


class TProduct(CartesianProductStrategy[TC, TObj]):
    def decomposition_function(self, c):
        kind, ch, _ = c.system[c.c - 1]
        return tuple(c.child(d) for d in ch) if kind == "P" else None

    def formal_step(self):
        return "product of the factors"

    def forward_map(self, c, obj, children=None):
        return tuple(tuple.__getitem__(obj, 3))

    def backward_map(self, c, objs, children=None):
        yield mk("p", c.c, 0, objs)

    @classmethod
    def from_dict(cls, d):
        return cls()

    def __repr__(self):
        return "TProduct()"

    __str__ = __repr__


def reachable(system, root):
    seen, todo = set(), [root]
    while todo:
        c = todo.pop()
        if c not in seen:
            seen.add(c)
            todo += list(system[c - 1][1])
    return seen


def specification(system, root, side=""):
    """The real CombinatorialSpecification of class `root` of the system."""
    from comb_spec_searcher.specification import CombinatorialSpecification

    rules = []
    for c in sorted(reachable(system, root)):
        cls = TC(system, c, side)
        kind = system[c - 1][0]
        rules.append((AtomStrategy() if kind == "A" else TUnion() if kind == "U" else TProduct())(cls))
    return CombinatorialSpecification(TC(system, root, side), rules)


def enc(o) -> list:
    """object -> JSON (uniform shape: [tag, class, int, [subobjects]])"""
    return [tuple.__getitem__(o, 0), int(tuple.__getitem__(o, 1)), int(tuple.__getitem__(o, 2)), [enc(s) for s in tuple.__getitem__(o, 3)]]
