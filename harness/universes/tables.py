"""Universe G: a *table-driven* universe for the search loop.

Classes are opaque integers (`GC(i)`), and what each strategy of the pack yields for a class is read from
a table that the harness generates (seeded) - any directed hypergraph of rules with any placement of empty
classes, verified classes, flags (possibly_empty, ignore_parent, workable, two-way, reversible, inferrable)
and shifts of both signs.  Nothing is counted in this universe: it exists to bind the *search loop*
(Search.tla: ClassDB + ClassQueue + RuleDB / forest keys + the inferral / symmetry / initial / expansion
phases and every time-slicing) to the real searcher on rule graphs the word universe W never produces
(rules whose children repeat, a class that is its own child next to others, empty classes in any position of
possibly_empty *and* of not possibly_empty rules, cycles of one-way rules, classes reachable only late).

The table the generator produced - not what the strategies answer when re-applied - is the universe handed
to TLC, so a strategy application the searcher gets wrong (wrong class, wrong strategy, wrong order) shows
as a rejected loop trace.
"""
import random
from typing import Dict, Iterator, Optional, Tuple

from comb_spec_searcher import CombinatorialClass, DisjointUnion, StrategyPack
from comb_spec_searcher.strategies.strategy import Strategy, VerificationStrategy

_EMPTY: Dict[int, frozenset] = {}


class GC(CombinatorialClass):
    """Class number i of universe number u (emptiness is a property of the universe table)."""

    def __init__(self, u: int, i: int):
        self.u, self.i = u, i

    def is_empty(self) -> bool:
        return self.i in _EMPTY[self.u]

    def __eq__(self, other) -> bool:
        return isinstance(other, GC) and (self.u, self.i) == (other.u, other.i)

    def __hash__(self) -> int:
        return hash((self.u, self.i))

    def __repr__(self) -> str:
        return "GC(%d, %d)" % (self.u, self.i)

    def __str__(self) -> str:
        return "g%d" % self.i

    def __len__(self) -> int:
        return 1

    def to_jsonable(self) -> dict:
        d = super().to_jsonable()
        d.update(u=self.u, i=self.i)
        return d

    @classmethod
    def from_dict(cls, d: dict) -> "GC":
        return cls(d["u"], d["i"])

    def objects_of_size(self, n: int, **parameters) -> Iterator:
        return iter(())


class TableStrategy(Strategy):
    """A plain strategy given by its table: class number -> rule record (children, flags of the rule, shifts)."""

    def __init__(self, u: int, name: str, table: Dict[int, dict], pe: bool, ip: bool, wk: bool, nf: bool):
        self.u, self.name, self.table = u, name, table
        super().__init__(ignore_parent=ip, inferrable=nf, possibly_empty=pe, workable=wk)

    def decomposition_function(self, comb_class: GC) -> Optional[Tuple[GC, ...]]:
        r = self.table.get(comb_class.i)
        return None if r is None else tuple(GC(self.u, j) for j in r["ch"])

    def can_be_equivalent(self) -> bool:
        return True

    def is_two_way(self, comb_class: GC) -> bool:
        return self.table[comb_class.i]["tw"]

    def is_reversible(self, comb_class: GC) -> bool:
        return self.table[comb_class.i]["rv"]

    def shifts(self, comb_class: GC, children=None) -> Tuple[int, ...]:
        return tuple(self.table[comb_class.i]["sh"])

    def constructor(self, comb_class, children=None):
        children = children if children is not None else self.decomposition_function(comb_class)
        return DisjointUnion(comb_class, children)

    def reverse_constructor(self, idx, comb_class, children=None):
        children = children if children is not None else self.decomposition_function(comb_class)
        return DisjointUnion(children[idx], (comb_class,) + tuple(c for i, c in enumerate(children) if i != idx))

    def formal_step(self) -> str:
        return self.name

    def backward_map(self, comb_class, objs, children=None):
        raise NotImplementedError

    def forward_map(self, comb_class, obj, children=None):
        raise NotImplementedError

    def __repr__(self) -> str:
        return "TableStrategy(%s)" % self.name

    def __str__(self) -> str:
        return self.name

    def __eq__(self, other) -> bool:
        return isinstance(other, TableStrategy) and (self.u, self.name) == (other.u, other.name)

    def __hash__(self) -> int:
        return hash((self.u, self.name))

    def to_jsonable(self) -> dict:
        d = super().to_jsonable()
        d.update(u=self.u, name=self.name, table={str(k): v for k, v in self.table.items()})
        return d

    @classmethod
    def from_dict(cls, d: dict) -> "TableStrategy":
        return cls(d["u"], d["name"], {int(k): v for k, v in d["table"].items()}, d["possibly_empty"], d["ignore_parent"], d["workable"], d["inferrable"])


class TableVerified(VerificationStrategy):
    def __init__(self, u: int, verified):
        self.u, self.ver = u, frozenset(verified)
        super().__init__(ignore_parent=True)  # as the verification rule of Search.tla (VerRule.ip)

    def verified(self, comb_class: GC) -> bool:
        return comb_class.i in self.ver

    def formal_step(self) -> str:
        return "verified by the table"

    def __repr__(self) -> str:
        return "TableVerified()"

    def __str__(self) -> str:
        return "table verification"

    @classmethod
    def from_dict(cls, d: dict) -> "TableVerified":
        return cls(d["u"], d["ver"])

    def to_jsonable(self) -> dict:
        d = super().to_jsonable()
        d.update(u=self.u, ver=sorted(self.ver))
        return d


def generate(seed: int, flavour: str) -> dict:
    """A seeded universe table in the format of searchmodel.universe_tla (the constant U of Search.tla)."""
    rnd = random.Random(seed * 7919 + (0 if flavour == "base" else 1))
    n = rnd.randint(3, 7)
    classes = list(range(n))
    empty = sorted(c for c in classes[1:] if rnd.random() < 0.2)
    nonempty = [c for c in classes if c not in empty]
    verified = sorted(c for c in nonempty if rnd.random() < (0.3 if c else 0.05))
    ninf = rnd.choice((0, 0, 1, 2))
    ninit = rnd.choice((0, 1, 1, 2))
    nexps = [rnd.randint(1, 2) for _ in range(rnd.choice((1, 1, 2)))]
    forest = flavour == "forest"

    def strat(kind, k):
        """flags of one strategy + its table"""
        inferral = kind == "inf"
        pe = rnd.random() < (0.5 if not inferral else 0.3)
        ip = True if inferral else rnd.random() < 0.3
        wk = rnd.random() < 0.85
        table = {}
        for c in nonempty:  # the searcher never expands an empty class of a contract-honouring universe
            if rnd.random() < (0.35 if inferral else 0.6):
                continue
            nch = 1 if inferral else rnd.choice((1, 1, 2, 2, 3))
            # children: a not possibly_empty strategy promises non-empty children
            pool = classes if pe else nonempty
            ch = [rnd.choice(pool) for _ in range(nch)]
            if inferral and ch == [c]:
                continue
            sh = [rnd.choice((0, 0, 0, 1, 1, 2, -1)) for _ in ch] if forest else [0 for _ in ch]
            tw = nch == 1 and rnd.random() < 0.6
            rv = tw or (forest and rnd.random() < 0.5)
            table[c] = {"par": c, "ch": ch, "pe": pe, "ip": ip, "wk": wk, "tw": tw, "rv": rv, "sh": sh, "nf": True}
        return {"name": "%s%d" % (kind, k), "pe": pe, "ip": ip, "wk": wk, "table": table}

    inf = [strat("inf", k) for k in range(ninf)]
    init = [strat("init", k) for k in range(ninit)]
    exps = [[strat("exp%d_" % j, k) for k in range(m)] for j, m in enumerate(nexps)]

    # symmetries (drawn last): one-child two-way rules, image of the same emptiness (the searcher copies the emptiness of a class
    # onto its symmetric images); applied by the searcher to *every* child label, empty ones included
    nsym = rnd.choice((0, 0, 1))
    syms = []
    for k in range(nsym):
        table = {}
        for c in classes:
            if rnd.random() < 0.3:
                continue
            pool = [d for d in classes if (d in empty) == (c in empty)]
            table[c] = {"par": c, "ch": [rnd.choice(pool)], "pe": False, "ip": False, "wk": False, "tw": True, "rv": True, "sh": [0], "nf": False}
        syms.append({"name": "sym%d" % k, "pe": False, "ip": False, "wk": False, "nf": False, "table": table})

    def fn(strats):
        out = {}
        for c in classes:
            sl = [[s["table"][c]] if c in s["table"] else [] for s in strats]
            if any(sl):
                out[c] = sl
        return out

    expand = {}
    for c in classes:
        sets = [[[s["table"][c]] if c in s["table"] else [] for s in es] for es in exps]
        if any(any(x) for x in sets):
            expand[c] = sets
    return {"start": 0, "empty": empty, "verified": verified, "initial": fn(init), "expand": expand, "inferral": fn(inf), "symm": fn(syms), "n": n,
            "ninf": ninf, "nsym": nsym, "ninit": ninit, "nexps": nexps, "iterative": False, "flavour": flavour, "reverse": forest and rnd.random() < 0.6,
            "_strats": {"inf": inf, "init": init, "exps": exps, "sym": syms}, "_seed": seed}


def realise(u: dict, uid: int):
    """The start class and the real StrategyPack of a generated table."""
    _EMPTY[uid] = frozenset(u["empty"])

    def mk(s):
        return TableStrategy(uid, s["name"], s["table"], s["pe"], s["ip"], s["wk"], s.get("nf", True))

    st = u["_strats"]
    pack = StrategyPack(initial_strats=[mk(s) for s in st["init"]], inferral_strats=[mk(s) for s in st["inf"]],
                        expansion_strats=[[mk(s) for s in es] for es in st["exps"]], ver_strats=[TableVerified(uid, u["verified"])], symmetries=[mk(s) for s in st["sym"]],
                        name="table universe %d" % u["_seed"])
    return GC(uid, 0), pack
