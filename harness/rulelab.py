"""Rule laboratory: every rule form the library derives from a genuine rule of the word universe,
driven in isolation with recording providers (counting: C09, C10; objects and maps: C07; sampling
with an enumerating random source: C08).  Produces events for Trace_Count.tla."""
import itertools
import random
from collections import Counter, defaultdict
from typing import Any, Dict, List, Optional, Tuple

from .enumrng import Decider, all_runs
from .instrument import Namer
from .specdesc import terms_list

STATS = {
    "s2": (("k1", "a"), ("k2", "b")),
    "s2t": (("k1", "a"), ("k2", "ab")),
    "s0": (),
    "s1": (("k1", "a"),),
    "s2": (("k1", "a"), ("k2", "b")),
    "s2m": (("k1", "a"), ("k2", "a")),
    "s3d": (("k1", "a"), ("k2", "a"), ("k3", "z")),
    "s2x": (("k1", "ab"), ("k2", "b")),
}


def fixture_classes(tier: str, seed: int):
    """(class, strategy) pairs to derive forms from."""
    from .universes import words as W

    pats_ab = [["aa"], ["ab"], ["ba"], ["ab", "ba"], ["aba", "bb"], ["aa", "ab"], ["aa", "aaa"], ["b", "aa"], ["aab", "bba"], []]
    prefixes = ["", "a", "b", "ab", "ba", "aab", "bb", "bba", "abba", "bab"]
    stats = ["s0", "s1", "s2", "s2t", "s2m", "s3d", "s2x"] if tier == "thorough" else ["s0", "s2", "s2t", "s2m", "s3d"]
    if tier == "thorough":
        words = ["".join(w) for n in (1, 2) for w in itertools.product("ab", repeat=n)]
        pats_ab = pats_ab + [[u] for u in words if [u] not in pats_ab] + [[u, v] for u in words for v in words if u < v and [u, v] not in pats_ab]
        prefixes = [""] + ["".join(w) for n in (1, 2, 3) for w in itertools.product("ab", repeat=n)]
    out = []
    strategies = [W.Expand(), W.ExpandTrim(), W.ExpandTrimRename(), W.RemoveFront(), W.RemoveFrontHidden(), W.RemoveFrontRename(), W.SplitFront(),
                  W.SplitMonotone(), W.Swap(),
                  W.MinimizePatterns(), W.MergeStats(), W.RenameStats(), W.EmptyThenRename(), W.ExpandMerge(), W.RemoveFrontMerge(), W.RemoveFrontLax()]
    for pats in pats_ab:
        for pre in prefixes:
            for st in stats:
                c = W.WC(pre, pats, "ab", False, STATS[st])
                if c.is_empty():
                    continue
                for s in strategies:
                    if s.decomposition_function(c) is not None:
                        out.append((c, s))
    for pats in (["aa", "bc"], ["abc"], ["ab", "ac", "ba", "bc"]):
        for pre in ("", "a", "ab", "cb", "c"):
            for st in ("s1", "s2"):
                c = W.WC(pre, pats, "abc", False, STATS[st])
                if c.is_empty():
                    continue
                for s in (W.Expand(), W.ExpandTrim(), W.ExpandTrimRename(), W.RemoveFront(), W.SplitFront(), W.Swap(), W.Cycle()):
                    if s.decomposition_function(c) is not None:
                        out.append((c, s))
    forced = []
    # three letters, two statistics that coincide on the children in which 'c' can no longer occur (#a and #{a,c}): several parent
    # statistics mapped onto one child statistic while that child still has many objects per size
    for pats in (["ac", "bc"], ["ac", "bc", "aa"], ["ac", "bc", "cc"]):
        for pre in ("", "c", "a", "cb"):
            c = W.WC(pre, pats, "abc", False, (("k1", "a"), ("k2", "ac")))
            if c.is_empty():
                continue
            for s in (W.ExpandMerge(), W.RemoveFrontMerge(), W.Expand()):
                if s.decomposition_function(c) is not None:
                    out.append((c, s))
                    forced.append((c, s))
    # one entry per (class, strategy): differently written pattern lists may denote the same class
    seen_pairs = {}
    for c, st in out:
        seen_pairs.setdefault((c, type(st).__name__), (c, st))
    out = list(seen_pairs.values())
    rnd = random.Random(seed + 9)
    rnd.shuffle(out)
    if tier == "quick":
        # the strategies that exist for one specific mechanism are never sampled away
        special = ("SplitMonotone", "ExpandTrim", "ExpandTrimRename", "RemoveFrontHidden", "RemoveFrontRename", "RenameStats", "SplitFront", "Cycle", "MergeStats", "EmptyThenRename", "ExpandMerge", "RemoveFrontMerge", "RemoveFrontLax")
        first = [x for x in out if type(x[1]).__name__ in special]
        per = {}
        keep = []
        for x in first:
            k = type(x[1]).__name__
            per[k] = per.get(k, 0) + 1
            if per[k] <= 30:
                keep.append(x)
        keep = forced + [x for x in keep if x not in forced]
        rest = [x for x in out if x not in keep]
        out = (keep + rest)[:520]
    return out


LEGIT = (AssertionError, NotImplementedError)  # the library's ways of saying "this form does not exist"


def derived_forms(c, s, problems=None) -> List[Tuple[str, Any]]:
    """All rule forms derived from rule s(c) that the library can build.  An exception other than the library's
    documented refusals while building a form is reported (appended to `problems`), never swallowed."""
    if problems is None:
        problems = []

    def note(what, e):
        if not isinstance(e, LEGIT):
            problems.append("%s: %s: %s" % (what, type(e).__name__, str(e)[:100]))

    from .universes import words as W
    from comb_spec_searcher.strategies.rule import EquivalencePathRule

    rule = s(c)
    forms = [("rule", rule)]
    if rule.is_reversible():
        for i in range(len(rule.children)):
            if not rule.children[i].is_empty():
                forms.append(("reverse%d" % i, rule.to_reverse_rule(i)))
    eq = None
    try:
        if rule.is_equivalence():
            eq = rule.to_equivalence_rule()
            forms.append(("equiv", eq))
            try:
                forms.append(("equiv-reverse", eq.to_reverse_rule(0)))
            except Exception as e:
                note("equiv-reverse", e)
    except Exception as e:
        note("equiv", e)
        eq = None
    if eq is not None:
        # chains: eq followed by another equivalence on its child, and by a reverse equivalence
        c1 = eq.children[0]
        for s2 in (W.MinimizePatterns(), W.MergeStats(), W.Swap(), W.Cycle(), W.RenameStats()):
            if s2.decomposition_function(c1) is None or c1.is_empty():
                continue
            try:
                r2 = s2(c1)
                if r2.is_equivalence():
                    forms.append(("path:%s" % type(s2).__name__, EquivalencePathRule([eq, r2.to_equivalence_rule()])))
            except Exception as e:
                note("path:%s" % type(s2).__name__, e)
        sw = W.Swap()
        if sw.decomposition_function(c1) is not None and not c1.is_empty():
            c2 = sw.decomposition_function(c1)[0]
            try:
                back = sw(c2).to_equivalence_rule().to_reverse_rule(0)  # c1 -> c2 by the reverse of swap(c2) = c1
                if back.comb_class == c1:
                    forms.append(("path:reverse-swap", EquivalencePathRule([eq, back])))
            except Exception as e:
                note("path:reverse-swap", e)
        # a path through the reverse of a renaming: c1 -> c2 where RenameStats(c2) = c1
        if c1.stats and all(n.startswith("k") and n[1:].isdigit() for n, _ in c1.stats) and not c1.is_empty():
            c2 = c1.with_(stats=[("k%d" % (int(n[1:]) + 1), l) for n, l in c1.stats])
            try:
                r3 = W.RenameStats()(c2)
                if r3.children[0] == c1:
                    back = r3.to_equivalence_rule().to_reverse_rule(0)
                    forms.append(("path:reverse-rename", EquivalencePathRule([eq, back])))
            except Exception as e:
                note("path:reverse-rename", e)
    return forms


class Lab:
    """Drives one rule form with recording providers."""

    def __init__(self, form_id, rule, namer):
        self.form_id, self.rule, self.namer = form_id, rule, namer
        self.events: List[dict] = []
        self.level = -1
        self.reqs: List[list] = []
        self.selfreqs: List[int] = []
        self.provided: Dict[Tuple[str, int], list] = {}
        self.cache: Dict[Tuple[str, int], Any] = {}

    # -- counting ------------------------------------------------------------------------
    def _provider(self, idx, child):
        # like the library's own term caches, a provider hands out the *same* Counter object every time it is asked
        # for (child, m); what it handed out is remembered (a copy) so that a rule that modifies the enumeration it
        # was given is noticed
        def get(m):
            self.reqs.append([idx, int(m)])
            key = (self.namer(child), int(m))
            if key not in self.cache:
                t = child.get_terms(m) if m >= 0 else Counter()
                self.cache[key] = t
                self.provided[key] = terms_list(t)
            return self.cache[key]

        return get

    def count(self, max_n):
        rule = self.rule
        rule.subterms = tuple(self._provider(i, ch) for i, ch in enumerate(rule.children))
        cons = rule.constructor
        orig_cons_terms = cons.get_terms
        orig_get_terms = type(rule).get_terms
        lab = self
        depth = [0]

        def cons_get_terms(parent_terms, subterms, n):
            lab.level = int(n)
            return orig_cons_terms(parent_terms, subterms, n)

        def rule_get_terms(n):
            if depth[0] > 0:
                lab.selfreqs.append(int(n))
            depth[0] += 1
            try:
                return orig_get_terms(rule, n)
            finally:
                depth[0] -= 1

        cons.get_terms = cons_get_terms
        rule.get_terms = rule_get_terms
        parent = self.namer(rule.comb_class)
        try:
            shifts = [int(x) for x in rule.shifts()]
        except Exception:
            shifts = []
        for n in range(max_n + 1):
            self.reqs, self.selfreqs = [], []
            try:
                t = rule.get_terms(n)
                self.events.append({"op": "formterms", "form": self.form_id, "c": parent, "n": n, "terms": terms_list(t)})
            except Exception as e:
                self.events.append({"op": "formterms", "form": self.form_id, "c": parent, "n": n, "terms": [[[-7], 1]],
                                    "error": type(e).__name__ + ":" + str(e)[:120]})
            self.events.append({"op": "reads", "form": self.form_id, "c": parent, "level": n, "shifts": shifts,
                                "reqs": [r for r in self.reqs], "selfreqs": list(self.selfreqs)})
        del rule.get_terms
        cons.get_terms = orig_cons_terms
        for (c, m), t in sorted(self.provided.items()):
            self.events.append({"op": "provided", "c": c, "n": m, "terms": t})
            self.events.append({"op": "kept", "form": self.form_id, "c": c, "n": m, "terms": terms_list(self.cache[(c, m)])})


def word_ints(c, w):
    idx = {a: i + 1 for i, a in enumerate(c.alphabet)}
    return [idx[x] for x in w]


def contract_events(rule, namer, max_n) -> List[dict]:
    """The strategy contract of a base rule of the fixture, to be checked by TLC on the ground truth."""
    from comb_spec_searcher.strategies.constructor import CartesianProduct, DisjointUnion

    cons = rule.constructor
    if isinstance(cons, CartesianProduct):
        kind = "product"
    elif isinstance(cons, DisjointUnion):
        kind = "union"
    else:
        return []
    parent = rule.comb_class
    maps = []
    for ch, m in zip(rule.children, cons.extra_parameters):
        names = list(ch.extra_parameters)
        maps.append([(names.index(m[k]) + 1) if k in m else 0 for k in parent.extra_parameters])
    return [{"op": "contract", "kind": kind, "parent": namer(parent), "children": [namer(ch) for ch in rule.children], "maps": maps, "n": n}
            for n in range(max_n + 1)]


def lab_job(args):
    """Worker: all forms of one (class, strategy) pair -> one trace."""
    (ckey, sname), tier, what = args
    from .universes import words as W

    prefix, patterns, alphabet, jp, stats = ckey
    c = W.WC(prefix, patterns, alphabet, jp, stats)
    s = getattr(W, sname)()
    namer = Namer("c")
    events = []
    problems: List[str] = []
    try:
        forms = derived_forms(c, s, problems)
    except Exception as e:
        forms = []
        problems.append("building the rule: %s: %s" % (type(e).__name__, str(e)[:100]))
    max_n = 6 if len(alphabet) == 2 else 5
    for fid, rule in forms:
        try:
            lab = Lab(fid, rule, namer)
            if "count" in what:
                lab.count(max_n)
            events += lab.events
            if "count" in what:
                events += lab_count_after_fault(fid, dict(derived_forms(c, s))[fid], namer, max_n)
                if fid == "rule":
                    events += contract_events(rule, namer, min(max_n, 5))
            if "objects" in what:
                fresh = dict(derived_forms(c, s))[fid]
                events += lab_objects(fid, fresh, namer, min(max_n, 5))
                events += lab_maps(fid, fresh, namer, min(max_n, 5))
                events += lab_objects_after_fault(fid, dict(derived_forms(c, s))[fid], namer, min(max_n, 5))
            if "draws" in what:
                fresh = dict(derived_forms(c, s))[fid]
                events += lab_draws(fid, fresh, namer, min(max_n, 5))
        except Exception as e:
            problems.append("%s: %s: %s" % (fid, type(e).__name__, str(e)[:100]))
    for pr in problems:
        # an unexpected exception while building or driving a rule form: reported as a failed computation of that form
        events.append({"op": "formterms", "form": pr.split(":")[0], "c": namer(c), "n": 0, "terms": [[[-7], 1]], "error": pr})
    classes = {n: cl.desc() for cl, n in namer.names.items()}
    tid = "%s|%s|%s|%s|%s" % (prefix or "e", ",".join(patterns), "".join(alphabet), ";".join("%s=%s" % (a, b) for a, b in stats) or "-", sname)
    return {"tid": tid, "classes": classes, "events": events, "forms": [f for f, _ in forms]}


# ---------------------------------------------------------------------------------------
# objects and maps (C07)

def objs_list(c, objects) -> list:
    return [[list(map(int, p)), [word_ints(c, w) for w in ws]] for p, ws in sorted(objects.items()) if ws]


def lab_objects(fid, rule, namer, max_n) -> List[dict]:
    """get_objects(n) of a rule form fed with the children's true objects."""
    events = []
    rule.subobjects = tuple((lambda ch: (lambda m: ch.get_objects(m)))(ch) for ch in rule.children)
    rule.subterms = tuple((lambda ch: (lambda m: ch.get_terms(m)))(ch) for ch in rule.children)
    parent = namer(rule.comb_class)
    for n in range(max_n + 1):
        try:
            objects = rule.get_objects(n)
        except NotImplementedError:
            return events
        except Exception as e:
            events.append({"op": "objects", "form": fid, "c": parent, "n": n, "objs": [[[-7], [[1]]]], "terms": [], "partial": False, "error": type(e).__name__})
            continue
        try:
            terms = terms_list(rule.get_terms(n))
        except Exception:
            terms = [[[-7], 1]]
        events.append({"op": "objects", "form": fid, "c": parent, "n": n, "objs": objs_list(rule.comb_class, objects), "terms": terms, "partial": False})
    return events


class _InjectedFault(Exception):
    pass


def lab_count_after_fault(fid, rule, namer, max_n) -> List[dict]:
    """A counting request aborted by a one-off fault in a provider (as a KeyboardInterrupt or RecursionError would),
    followed by the same requests again: the terms must still be exactly right."""
    events = []
    state = {"calls": 0, "armed": True}

    def mk(ch):
        def get(m):
            state["calls"] += 1
            if state["armed"] and state["calls"] == 4:
                state["armed"] = False
                raise _InjectedFault()
            return ch.get_terms(m) if m >= 0 else Counter()

        return get

    rule.subterms = tuple(mk(ch) for ch in rule.children)
    try:
        rule.get_terms(max_n)
    except _InjectedFault:
        pass
    except Exception:
        pass
    if state["armed"]:
        return events
    parent = namer(rule.comb_class)
    for n in range(max_n + 1):
        try:
            events.append({"op": "formterms", "form": fid + "+fault", "c": parent, "n": n, "terms": terms_list(rule.get_terms(n))})
        except Exception as e:
            events.append({"op": "formterms", "form": fid + "+fault", "c": parent, "n": n, "terms": [[[-7], 1]], "error": type(e).__name__})
    return events


def lab_objects_after_fault(fid, rule, namer, max_n) -> List[dict]:
    """A generation request that is aborted by a one-off fault inside a backward map (as a KeyboardInterrupt or a
    RecursionError would), followed by the same requests again: the objects must still be exactly right."""
    events = []
    rule.subobjects = tuple((lambda ch: (lambda m: ch.get_objects(m)))(ch) for ch in rule.children)
    rule.subterms = tuple((lambda ch: (lambda m: ch.get_terms(m)))(ch) for ch in rule.children)
    parent = namer(rule.comb_class)
    orig = rule.backward_map
    state = {"calls": 0, "armed": True}

    def faulty(objs):
        state["calls"] += 1
        if state["armed"] and state["calls"] == 3:
            state["armed"] = False
            raise _InjectedFault()
        return orig(objs)

    rule.backward_map = faulty
    try:
        try:
            rule.get_objects(max_n)
        except _InjectedFault:
            pass
        except NotImplementedError:
            return events
        except Exception:
            pass
    finally:
        del rule.backward_map
    if state["armed"]:
        return events  # fewer than three objects were built: nothing was interrupted
    for n in range(max_n + 1):
        try:
            objects = rule.get_objects(n)
            terms = terms_list(rule.get_terms(n))
        except NotImplementedError:
            return events
        except Exception as e:
            events.append({"op": "objects", "form": fid + "+fault", "c": parent, "n": n, "objs": [[[-7], [[1]]]], "terms": [], "partial": False, "error": type(e).__name__})
            continue
        events.append({"op": "objects", "form": fid + "+fault", "c": parent, "n": n, "objs": objs_list(rule.comb_class, objects), "terms": terms, "partial": False})
    return events


def part_json(c, w):
    return {"none": True, "w": []} if w is None else {"none": False, "w": word_ints(c, w)}


def lab_maps(fid, rule, namer, max_n) -> List[dict]:
    """forward_map then backward_map on every object of the parent (forms that support maps)."""
    from comb_spec_searcher.strategies.constructor import CartesianProduct

    events = []
    try:
        kind = "product" if isinstance(rule.constructor, CartesianProduct) else "union"
    except Exception:
        return events
    parent = rule.comb_class
    children = [namer(ch) for ch in rule.children]
    for n in range(max_n + 1):
        for w in parent.objects_of_size(n):
            try:
                parts = rule.forward_map(w)
            except NotImplementedError:
                return events
            except Exception as e:
                events.append({"op": "maps", "form": fid, "kind": kind, "c": namer(parent), "children": children, "obj": word_ints(parent, w),
                               "parts": [], "back": [-1], "error": type(e).__name__})
                continue
            try:
                backs = list(rule.backward_map(tuple(parts)))
                back = word_ints(parent, backs[0]) if len(backs) == 1 else [-len(backs) - 1]
            except NotImplementedError:
                return events
            except Exception as e:
                back = [-1]
            events.append({"op": "maps", "form": fid, "kind": kind, "c": namer(parent), "children": children, "obj": word_ints(parent, w),
                           "parts": [part_json(ch, p) for ch, p in zip(rule.children, parts)], "back": back})
    return events


# ---------------------------------------------------------------------------------------
# sampling (C08)

def lab_draws(fid, rule, namer, max_n, max_count=80) -> List[dict]:
    """random_sample_object_of_size with the random source enumerated: every r in 1..N."""
    import comb_spec_searcher.strategies.constructor.cartesian as cart
    import comb_spec_searcher.strategies.constructor.disjoint as disj
    import comb_spec_searcher.strategies.rule as rulemod
    from comb_spec_searcher.exception import InvalidOperationError

    events = []
    parent = rule.comb_class
    names = parent.extra_parameters
    rule.subterms = tuple((lambda ch: (lambda m: ch.get_terms(m)))(ch) for ch in rule.children)
    record: List[list] = []

    def mk_rec(i, ch):
        def rec(n, **params):
            return sum(1 for _ in ch.objects_of_size(n, **params))

        return rec

    def mk_sampler(i, ch):
        def sampler(n, **params):
            record.append({"child": namer(ch), "n": int(n), "params": [int(params[k]) for k in ch.extra_parameters]})
            return next(ch.objects_of_size(n, **params))

        return sampler

    rule.subrecs = tuple(mk_rec(i, ch) for i, ch in enumerate(rule.children))
    rule.subsamplers = tuple(mk_sampler(i, ch) for i, ch in enumerate(rule.children))
    old = (disj.randint, cart.random, rulemod.random)
    try:
        for n in range(max_n + 1):
            try:
                terms = rule.get_terms(n)
            except Exception:
                continue
            for p, cnt in sorted(terms.items()):
                if cnt <= 0 or cnt > max_count:
                    continue
                params = dict(zip(names, p))
                branches, sel = [], []
                failed = None

                objs = []

                def one(dec):
                    # the random source is an enumerator that honours the range the code asks for
                    disj.randint, cart.random, rulemod.random = dec.randint, dec, dec
                    del record[:]
                    o = rule.random_sample_object_of_size(n, **params)
                    return list(record), o

                try:
                    for _script, (b, o) in all_runs(one, limit=4 * max_count):
                        if b not in branches:
                            branches.append(b)
                        sel.append(branches.index(b))
                        objs.append(word_ints(parent, o))
                except NotImplementedError:
                    return events
                except Exception as e:
                    failed = type(e).__name__
                ev = {"op": "draw", "form": fid, "c": namer(parent), "n": n, "params": [int(x) for x in p], "count": int(cnt),
                      "sel": sel, "branches": branches, "objs": objs}
                if failed:
                    ev["sel"], ev["error"] = [], failed
                events.append(ev)
    finally:
        disj.randint, cart.random, rulemod.random = old
    return events
