"""Rule laboratory: every rule form the library derives from a genuine rule of the word universe,
driven in isolation with recording providers (counting: C09, C10; objects and maps: C07; sampling
with an enumerating random source: C08).  Produces events for Trace_Count.tla."""
import itertools
import random
from collections import Counter, defaultdict
from typing import Any, Dict, List, Optional, Tuple

from .enumrng import Decider, all_runs
from .instrument import Namer
from .specdesc import terms_list

STATS = {
    "s0": (),
    "s1": (("k1", "a"),),
    "s2": (("k1", "a"), ("k2", "b")),
    "s2m": (("k1", "a"), ("k2", "a")),
    "s3d": (("k1", "a"), ("k2", "a"), ("k3", "z")),
    "s2x": (("k1", "ab"), ("k2", "b")),
}


def fixture_classes(tier: str, seed: int):
    """(class, strategy) pairs to derive forms from."""
    from .universes import words as W

    pats_ab = [["aa"], ["ab"], ["aba", "bb"], ["aa", "ab"], ["aa", "aaa"], ["b", "aa"], ["aab", "bba"], []]
    prefixes = ["", "a", "b", "ab", "ba", "aab", "bb", "bba", "abba", "bab"]
    stats = ["s0", "s1", "s2m", "s3d", "s2x"] if tier == "thorough" else ["s0", "s2m", "s3d"]
    out = []
    strategies = [W.Expand(), W.RemoveFront(), W.SplitFront(), W.Swap(), W.MinimizePatterns(), W.MergeStats()]
    for pats in pats_ab:
        for pre in prefixes:
            for st in stats:
                c = W.WC(pre, pats, "ab", False, STATS[st])
                if c.is_empty():
                    continue
                for s in strategies:
                    if s.decomposition_function(c) is not None:
                        out.append((c, s))
    for pats in (["aa", "bc"], ["abc"]):
        for pre in ("", "a", "ab", "cb"):
            c = W.WC(pre, pats, "abc", False, STATS["s1"])
            if c.is_empty():
                continue
            for s in (W.Expand(), W.RemoveFront(), W.SplitFront()):
                if s.decomposition_function(c) is not None:
                    out.append((c, s))
    rnd = random.Random(seed + 9)
    rnd.shuffle(out)
    if tier == "quick":
        out = out[:260]
    return out


def derived_forms(c, s) -> List[Tuple[str, Any]]:
    """All rule forms derived from rule s(c) that the library can build."""
    from .universes import words as W
    from comb_spec_searcher.strategies.rule import EquivalencePathRule

    rule = s(c)
    forms = [("rule", rule)]
    if rule.is_reversible():
        for i in range(len(rule.children)):
            if not rule.children[i].is_empty():
                forms.append(("reverse%d" % i, rule.to_reverse_rule(i)))
    eq = None
    try:
        if rule.is_equivalence():
            eq = rule.to_equivalence_rule()
            forms.append(("equiv", eq))
            try:
                forms.append(("equiv-reverse", eq.to_reverse_rule(0)))
            except (AssertionError, NotImplementedError):
                pass
    except Exception:
        eq = None
    if eq is not None:
        # chains: eq followed by another equivalence on its child, and by a reverse equivalence
        c1 = eq.children[0]
        for s2 in (W.MinimizePatterns(), W.MergeStats(), W.Swap()):
            if s2.decomposition_function(c1) is None or c1.is_empty():
                continue
            try:
                r2 = s2(c1)
                if r2.is_equivalence():
                    forms.append(("path:%s" % type(s2).__name__, EquivalencePathRule([eq, r2.to_equivalence_rule()])))
            except (AssertionError, NotImplementedError, Exception):
                pass
        sw = W.Swap()
        if sw.decomposition_function(c1) is not None and not c1.is_empty():
            c2 = sw.decomposition_function(c1)[0]
            try:
                back = sw(c2).to_equivalence_rule().to_reverse_rule(0)  # c1 -> c2 by the reverse of swap(c2) = c1
                if back.comb_class == c1:
                    forms.append(("path:reverse-swap", EquivalencePathRule([eq, back])))
            except (AssertionError, NotImplementedError, Exception):
                pass
    return forms


class Lab:
    """Drives one rule form with recording providers."""

    def __init__(self, form_id, rule, namer):
        self.form_id, self.rule, self.namer = form_id, rule, namer
        self.events: List[dict] = []
        self.level = -1
        self.reqs: List[list] = []
        self.selfreqs: List[int] = []
        self.provided: Dict[Tuple[str, int], list] = {}

    # -- counting ------------------------------------------------------------------------
    def _provider(self, idx, child):
        def get(m):
            self.reqs.append([idx, int(m)])
            t = child.get_terms(m) if m >= 0 else Counter()
            self.provided[(self.namer(child), int(m))] = terms_list(t)
            return t

        return get

    def count(self, max_n):
        rule = self.rule
        rule.subterms = tuple(self._provider(i, ch) for i, ch in enumerate(rule.children))
        cons = rule.constructor
        orig_cons_terms = cons.get_terms
        orig_get_terms = type(rule).get_terms
        lab = self
        depth = [0]

        def cons_get_terms(parent_terms, subterms, n):
            lab.level = int(n)
            return orig_cons_terms(parent_terms, subterms, n)

        def rule_get_terms(n):
            if depth[0] > 0:
                lab.selfreqs.append(int(n))
            depth[0] += 1
            try:
                return orig_get_terms(rule, n)
            finally:
                depth[0] -= 1

        cons.get_terms = cons_get_terms
        rule.get_terms = rule_get_terms
        parent = self.namer(rule.comb_class)
        try:
            shifts = [int(x) for x in rule.shifts()]
        except Exception:
            shifts = []
        for n in range(max_n + 1):
            self.reqs, self.selfreqs = [], []
            try:
                t = rule.get_terms(n)
                self.events.append({"op": "formterms", "form": self.form_id, "c": parent, "n": n, "terms": terms_list(t)})
            except Exception as e:
                self.events.append({"op": "formterms", "form": self.form_id, "c": parent, "n": n, "terms": [[[-7], 1]],
                                    "error": type(e).__name__ + ":" + str(e)[:120]})
            self.events.append({"op": "reads", "form": self.form_id, "c": parent, "level": n, "shifts": shifts,
                                "reqs": [r for r in self.reqs], "selfreqs": list(self.selfreqs)})
        del rule.get_terms
        cons.get_terms = orig_cons_terms
        for (c, m), t in sorted(self.provided.items()):
            self.events.append({"op": "provided", "c": c, "n": m, "terms": t})


def word_ints(c, w):
    idx = {a: i + 1 for i, a in enumerate(c.alphabet)}
    return [idx[x] for x in w]


def lab_job(args):
    """Worker: all forms of one (class, strategy) pair -> one trace."""
    (ckey, sname), tier, what = args
    from .universes import words as W

    prefix, patterns, alphabet, jp, stats = ckey
    c = W.WC(prefix, patterns, alphabet, jp, stats)
    s = getattr(W, sname)()
    namer = Namer("c")
    events = []
    forms = derived_forms(c, s)
    max_n = 6 if len(alphabet) == 2 else 5
    for fid, rule in forms:
        lab = Lab(fid, rule, namer)
        if "count" in what:
            lab.count(max_n)
        events += lab.events
        if "objects" in what:
            fresh = dict(derived_forms(c, s))[fid]
            events += lab_objects(fid, fresh, namer, min(max_n, 5))
            events += lab_maps(fid, fresh, namer, min(max_n, 5))
        if "draws" in what:
            fresh = dict(derived_forms(c, s))[fid]
            events += lab_draws(fid, fresh, namer, min(max_n, 5))
    classes = {n: cl.desc() for cl, n in namer.names.items()}
    tid = "%s|%s|%s|%s|%s" % (prefix or "e", ",".join(patterns), "".join(alphabet), len(stats), sname)
    return {"tid": tid, "classes": classes, "events": events, "forms": [f for f, _ in forms]}


# ---------------------------------------------------------------------------------------
# objects and maps (C07)

def objs_list(c, objects) -> list:
    return [[list(map(int, p)), [word_ints(c, w) for w in ws]] for p, ws in sorted(objects.items()) if ws]


def lab_objects(fid, rule, namer, max_n) -> List[dict]:
    """get_objects(n) of a rule form fed with the children's true objects."""
    events = []
    rule.subobjects = tuple((lambda ch: (lambda m: ch.get_objects(m)))(ch) for ch in rule.children)
    rule.subterms = tuple((lambda ch: (lambda m: ch.get_terms(m)))(ch) for ch in rule.children)
    parent = namer(rule.comb_class)
    for n in range(max_n + 1):
        try:
            objects = rule.get_objects(n)
        except NotImplementedError:
            return events
        except Exception as e:
            events.append({"op": "objects", "form": fid, "c": parent, "n": n, "objs": [[[-7], [[1]]]], "terms": [], "partial": False, "error": type(e).__name__})
            continue
        try:
            terms = terms_list(rule.get_terms(n))
        except Exception:
            terms = [[[-7], 1]]
        events.append({"op": "objects", "form": fid, "c": parent, "n": n, "objs": objs_list(rule.comb_class, objects), "terms": terms, "partial": False})
    return events


def part_json(c, w):
    return {"none": True, "w": []} if w is None else {"none": False, "w": word_ints(c, w)}


def lab_maps(fid, rule, namer, max_n) -> List[dict]:
    """forward_map then backward_map on every object of the parent (forms that support maps)."""
    from comb_spec_searcher.strategies.constructor import CartesianProduct

    events = []
    try:
        kind = "product" if isinstance(rule.constructor, CartesianProduct) else "union"
    except Exception:
        return events
    parent = rule.comb_class
    children = [namer(ch) for ch in rule.children]
    for n in range(max_n + 1):
        for w in parent.objects_of_size(n):
            try:
                parts = rule.forward_map(w)
            except NotImplementedError:
                return events
            except Exception as e:
                events.append({"op": "maps", "form": fid, "kind": kind, "c": namer(parent), "children": children, "obj": word_ints(parent, w),
                               "parts": [], "back": [-1], "error": type(e).__name__})
                continue
            try:
                backs = list(rule.backward_map(tuple(parts)))
                back = word_ints(parent, backs[0]) if len(backs) == 1 else [-len(backs) - 1]
            except NotImplementedError:
                return events
            except Exception as e:
                back = [-1]
            events.append({"op": "maps", "form": fid, "kind": kind, "c": namer(parent), "children": children, "obj": word_ints(parent, w),
                           "parts": [part_json(ch, p) for ch, p in zip(rule.children, parts)], "back": back})
    return events


# ---------------------------------------------------------------------------------------
# sampling (C08)

class _FixedRandom:
    """random source returning a scripted value for randint and the first element for choice"""

    def __init__(self):
        self.r = 1
        self.calls = 0

    def randint(self, a, b):
        self.calls += 1
        return self.r

    def choice(self, seq):
        return list(seq)[0]


def lab_draws(fid, rule, namer, max_n, max_count=80) -> List[dict]:
    """random_sample_object_of_size with the random source enumerated: every r in 1..N."""
    import comb_spec_searcher.strategies.constructor.cartesian as cart
    import comb_spec_searcher.strategies.constructor.disjoint as disj
    import comb_spec_searcher.strategies.rule as rulemod
    from comb_spec_searcher.exception import InvalidOperationError

    events = []
    parent = rule.comb_class
    names = parent.extra_parameters
    rule.subterms = tuple((lambda ch: (lambda m: ch.get_terms(m)))(ch) for ch in rule.children)
    record: List[list] = []

    def mk_rec(i, ch):
        def rec(n, **params):
            return sum(1 for _ in ch.objects_of_size(n, **params))

        return rec

    def mk_sampler(i, ch):
        def sampler(n, **params):
            record.append({"child": namer(ch), "n": int(n), "params": [int(params[k]) for k in ch.extra_parameters]})
            return next(ch.objects_of_size(n, **params))

        return sampler

    rule.subrecs = tuple(mk_rec(i, ch) for i, ch in enumerate(rule.children))
    rule.subsamplers = tuple(mk_sampler(i, ch) for i, ch in enumerate(rule.children))
    fixed = _FixedRandom()
    old = (disj.randint, cart.random, rulemod.random)
    disj.randint, cart.random, rulemod.random = fixed.randint, fixed, fixed
    try:
        for n in range(max_n + 1):
            try:
                terms = rule.get_terms(n)
            except Exception:
                continue
            for p, cnt in sorted(terms.items()):
                if cnt <= 0 or cnt > max_count:
                    continue
                params = dict(zip(names, p))
                branches, sel = [], []
                failed = None
                for r in range(1, cnt + 1):
                    fixed.r = r
                    del record[:]
                    try:
                        rule.random_sample_object_of_size(n, **params)
                    except NotImplementedError:
                        return events
                    except Exception as e:
                        failed = type(e).__name__
                        break
                    b = list(record)
                    if b not in branches:
                        branches.append(b)
                    sel.append(branches.index(b))
                ev = {"op": "draw", "form": fid, "c": namer(parent), "n": n, "params": [int(x) for x in p], "count": int(cnt),
                      "sel": sel, "branches": branches}
                if failed:
                    ev["sel"], ev["error"] = [], failed
                events.append(ev)
    finally:
        disj.randint, cart.random, rulemod.random = old
    return events
