"""Recording wrappers around the library's objects (no source edits needed: the library is
sequential Python, so wrapping a callable from the harness process observes it exactly at its
return - the linearisation point of every specification action).

Every recorder logs *after* the wrapped call returned, also on the error path, and only the
outermost call of a recorder (a depth counter skips nested calls such as is_empty -> get_class).
"""
import contextlib
from typing import Any, Callable, Dict, List, Optional


class Namer:
    """Stable names for classes, by the class's own equality (that *is* 'equal classes')."""

    def __init__(self, prefix: str = "c"):
        self.names: Dict[Any, str] = {}
        self.objs: List[Any] = []
        self.prefix = prefix

    def __call__(self, cls) -> str:
        n = self.names.get(cls)
        if n is None:
            n = "%s%d" % (self.prefix, len(self.objs))
            self.names[cls] = n
            self.objs.append(cls)
        return n


def exc_name(e: BaseException) -> str:
    return type(e).__name__


_CLASSDB_REG: Dict[int, "ClassDBRecorder"] = {}
_CLASSDB_ORIG: Dict[str, Callable] = {}
_CLASSDB_METHODS = ("get_label", "get_class", "is_empty", "set_empty", "add", "__contains__")


def _install_classdb_patches():
    """Patch the ClassDB *class* once; calls on instances without a recorder pass through."""
    if _CLASSDB_ORIG:
        return
    from comb_spec_searcher.class_db import ClassDB

    def mk(name):
        orig = getattr(ClassDB, name)
        _CLASSDB_ORIG[name] = orig

        def wrapper(self, *a, **k):
            rec = _CLASSDB_REG.get(id(self))
            if rec is None or rec.db is not self:
                return orig(self, *a, **k)
            return rec._call(name, a, k)

        wrapper.__name__ = name
        return wrapper

    for name in _CLASSDB_METHODS:
        setattr(ClassDB, name, mk(name))


class ClassDBRecorder:
    """Records the public calls on one ClassDB instance as events in the format of Trace_ClassDB."""

    def __init__(self, db, namer: Callable[[Any], str], sink: Optional[List[dict]] = None):
        _install_classdb_patches()
        self.db, self.namer = db, namer
        self.events: List[dict] = [] if sink is None else sink
        self.depth = 0
        self.enabled = True
        self._orig = _CLASSDB_ORIG
        _CLASSDB_REG[id(db)] = self

    def close(self):
        _CLASSDB_REG.pop(id(self.db), None)

    def _is_class(self, key) -> bool:
        return isinstance(key, self.db.combinatorial_class)

    def _call(self, name, a, k):
        orig = self._orig[name]
        if self.depth > 0 or not self.enabled:
            return orig(self.db, *a, **k)
        self.depth += 1
        ret = None
        err = None
        try:
            ret = orig(self.db, *a, **k)
            return ret
        except BaseException as e:  # logged, then re-raised unchanged
            err = e
            raise
        finally:
            self.depth -= 1
            self._log(name, a, k, ret, err)

    def _log(self, name, a, k, ret, err):
        ev = {"op": name, "kc": "", "c": "", "l": 0, "b": False}
        key = a[0] if a else k.get("key", k.get("comb_class"))
        if name == "__contains__":
            ev["op"] = "contains"
        if name == "is_empty":
            label = a[1] if len(a) > 1 else k.get("label")
            if label is None:
                ev.update(kc="c", c=self.namer(key))
            else:
                if self._is_class(key):
                    ev.update(kc="cl", c=self.namer(key), l=int(label))
                else:  # label-only fast path used with a compressed key: treat as label query
                    ev.update(kc="cl", c="?", l=int(label))
        elif name == "set_empty":
            b = a[1] if len(a) > 1 else k.get("empty", True)
            ev["b"] = bool(b)
            if self._is_class(key):
                ev.update(kc="c", c=self.namer(key))
            else:
                ev.update(kc="l", l=int(key))
        elif name == "add":
            ev.update(kc="c", c=self.namer(key))
        else:
            if self._is_class(key):
                ev.update(kc="c", c=self.namer(key))
            else:
                ev.update(kc="l", l=int(key))
        if err is not None:
            ev["ret"] = {"k": exc_name(err), "i": 0, "c": ""}
        elif ev["op"] == "get_label":
            ev["ret"] = {"k": "label", "i": int(ret), "c": ""}
        elif ev["op"] == "get_class":
            ev["ret"] = {"k": "class", "i": 0, "c": self.namer(ret)}
        elif ev["op"] in ("contains", "is_empty"):
            ev["ret"] = {"k": "bool", "i": 1 if ret else 0, "c": ""}
        else:
            ev["ret"] = {"k": "none", "i": 0, "c": ""}
        self.events.append(ev)

    def observe(self):
        """The whole bijection as the public API shows it: iterate labels, look each one up."""
        self.depth += 1
        try:
            try:
                labels = list(self.db)
                store = [self.namer(self._orig["get_class"](self.db, l)) for l in labels]
                ok = labels == list(range(len(labels)))
                ret = {"k": "store" if ok else "labels-not-dense", "i": len(store), "c": "", "store": store}
            except BaseException as e:
                ret = {"k": exc_name(e), "i": 0, "c": "", "store": []}
        finally:
            self.depth -= 1
        self.events.append({"op": "observe", "kc": "", "c": "", "l": 0, "b": False, "ret": ret})

    @contextlib.contextmanager
    def paused(self):
        old = self.enabled
        self.enabled = False
        try:
            yield
        finally:
            self.enabled = old


# ---------------------------------------------------------------------------------------
# DefaultQueue

_QUEUE_REG: Dict[int, "QueueRecorder"] = {}
_QUEUE_ORIG: Dict[str, Callable] = {}
_QUEUE_METHODS = ("add", "set_stop_yielding", "set_verified", "set_not_inferrable", "__next__", "do_level")
_QUEUE_OPNAME = {"add": "add", "set_stop_yielding": "stop", "set_verified": "verified", "set_not_inferrable": "notinf"}


def _install_queue_patches():
    if _QUEUE_ORIG:
        return
    from comb_spec_searcher.class_queue import DefaultQueue

    def mk(name):
        orig = getattr(DefaultQueue, name)
        _QUEUE_ORIG[name] = orig

        def wrapper(self, *a, **k):
            rec = _QUEUE_REG.get(id(self))
            if rec is None or rec.q is not self:
                return orig(self, *a, **k)
            return rec._call(name, a, k)

        wrapper.__name__ = name
        return wrapper

    for name in _QUEUE_METHODS:
        setattr(DefaultQueue, name, mk(name))


NONE_P = {"l": -1, "k": "none", "s": 0, "i": 0}


class QueueRecorder:
    """Records the public calls on one DefaultQueue as events in the format of Trace_ClassQueue."""

    def __init__(self, q, sink: Optional[List[dict]] = None):
        _install_queue_patches()
        self.q = q
        self.events: List[dict] = [] if sink is None else sink
        self.depth = 0
        _QUEUE_REG[id(q)] = self

    def close(self):
        _QUEUE_REG.pop(id(self.q), None)

    def shape(self):
        q = self.q
        return (1 if q.inferral_strategies else 0, len(q.initial_strategies), tuple(len(s) for s in q.expansion_strats))

    def project(self, wp) -> dict:
        q = self.q
        if wp.inferral:
            return {"l": int(wp.label), "k": "inf", "s": 0, "i": 0}
        if len(wp.strategies) == 1:
            st = wp.strategies[0]
            for i, x in enumerate(q.initial_strategies):
                if x is st:
                    return {"l": int(wp.label), "k": "init", "s": 0, "i": i + 1}
            for s, grp in enumerate(q.expansion_strats):
                for i, x in enumerate(grp):
                    if x is st:
                        return {"l": int(wp.label), "k": "exp", "s": s + 1, "i": i + 1}
        return {"l": int(wp.label), "k": "unknown-strategy", "s": 0, "i": 0}

    def _lv(self):
        try:
            return int(self.q.levels_completed)
        except Exception:
            return -1

    def _ev(self, op, a, ret):
        self.events.append({"op": op, "a": int(a), "ret": ret, "lv": self._lv()})

    def _call(self, name, a, k):
        orig = _QUEUE_ORIG[name]
        if self.depth > 0:
            return orig(self.q, *a, **k)
        if name == "do_level":
            return self._do_level(orig(self.q, *a, **k))
        self.depth += 1
        ret = err = None
        try:
            ret = orig(self.q, *a, **k)
            return ret
        except BaseException as e:
            err = e
            raise
        finally:
            self.depth -= 1
            if name == "__next__":
                if err is None:
                    self._ev("next", -1, self.project(ret))
                elif isinstance(err, StopIteration):
                    self._ev("next", -1, {"l": -1, "k": "stop", "s": 0, "i": 0})
                else:
                    self._ev("next", -1, {"l": -1, "k": exc_name(err), "s": 0, "i": 0})
            else:
                label = a[0] if a else k.get("label")
                r = dict(NONE_P) if err is None else {"l": -1, "k": exc_name(err), "s": 0, "i": 0}
                self._ev(_QUEUE_OPNAME[name], label, r)

    def _do_level(self, gen):
        started = False
        while True:
            if not started:
                self._ev("dl_start", -1, dict(NONE_P))
                started = True
            self.depth += 1
            try:
                wp = next(gen)
            except StopIteration:
                self.depth -= 1
                self._ev("dl_next", -1, {"l": -1, "k": "end", "s": 0, "i": 0})
                return
            except BaseException as e:
                self.depth -= 1
                self._ev("dl_next", -1, {"l": -1, "k": exc_name(e), "s": 0, "i": 0})
                raise
            self.depth -= 1
            self._ev("dl_next", -1, self.project(wp))
            yield wp


# ---------------------------------------------------------------------------------------
# EquivalenceDB

_EQ_REG: Dict[int, "EquivRecorder"] = {}
_EQ_ORIG: Dict[str, Callable] = {}
_EQ_METHODS = ("add_two_way_edge", "add_one_way_edge", "set_verified", "connect_cycles")
_EQ_OPNAME = {"add_two_way_edge": "two", "add_one_way_edge": "one", "set_verified": "mark", "connect_cycles": "cc"}


def _install_equiv_patches():
    if _EQ_ORIG:
        return
    from comb_spec_searcher.equiv_db import EquivalenceDB

    def mk(name):
        orig = getattr(EquivalenceDB, name)
        _EQ_ORIG[name] = orig

        def wrapper(self, *a, **k):
            rec = _EQ_REG.get(id(self))
            if rec is None or rec.db is not self:
                return orig(self, *a, **k)
            return rec._call(name, a, k)

        wrapper.__name__ = name
        return wrapper

    for name in _EQ_METHODS:
        setattr(EquivalenceDB, name, mk(name))


def eq_event(op, a=0, b=0, labels=(), eq=(), ver=(), path=()):
    return {"op": op, "a": int(a), "b": int(b), "labels": list(labels), "eq": [list(r) for r in eq],
            "ver": list(ver), "path": list(path)}


class EquivRecorder:
    """Records edge insertions, marks and cycle detections on one EquivalenceDB (Trace_EquivDB format)."""

    def __init__(self, db, sink: Optional[List[dict]] = None):
        _install_equiv_patches()
        self.db = db
        self.events: List[dict] = [] if sink is None else sink
        self.depth = 0
        _EQ_REG[id(db)] = self

    def close(self):
        _EQ_REG.pop(id(self.db), None)

    def _call(self, name, a, k):
        orig = _EQ_ORIG[name]
        if self.depth > 0:
            return orig(self.db, *a, **k)
        self.depth += 1
        try:
            return orig(self.db, *a, **k)
        finally:
            self.depth -= 1
            args = list(a) + list(k.values())
            self.events.append(eq_event(_EQ_OPNAME[name], *(args[:2])))

    def observe(self, labels=None, paths=True, max_paths=40):
        """Ask the database about every pair of `labels` (default: every label it knows)."""
        db = self.db
        self.depth += 1
        try:
            if labels is None:
                labels = sorted(set(db.parents) | set(db.vertices))
            labels = list(labels)
            eq = [[1 if db.equivalent(x, y) else 0 for y in labels] for x in labels]
            ver = [1 if db.is_verified(x) else 0 for x in labels]
            self.events.append(eq_event("observe", labels=labels, eq=eq, ver=ver))
            n = 0
            if paths:
                for i, x in enumerate(labels):
                    for j, y in enumerate(labels):
                        if i != j and eq[i][j] and n < max_paths:
                            n += 1
                            try:
                                p = list(db.find_path(x, y))
                            except BaseException as e:  # recorded as an (invalid) empty path
                                p = []
                            self.events.append(eq_event("path", x, y, path=p))
        finally:
            self.depth -= 1


# ---------------------------------------------------------------------------------------
# TableMethod (forest rule database)

_TM_REG: Dict[int, "TableRecorder"] = {}
_TM_ORIG: Dict[str, Callable] = {}


def _install_table_patches():
    if _TM_ORIG:
        return
    from comb_spec_searcher.rule_db.forest import TableMethod

    orig = TableMethod.add_rule_key
    _TM_ORIG["add_rule_key"] = orig

    def wrapper(self, rule_key, *a, **k):
        rec = _TM_REG.get(id(self))
        if rec is None or rec.tm is not self:
            return orig(self, rule_key, *a, **k)
        try:
            return orig(self, rule_key, *a, **k)
        finally:
            rec.events.append({"op": "add", "p": int(rule_key.parent), "ch": [int(c) for c in rule_key.children],
                               "sh": [int(s) for s in rule_key.shifts], "fn": [], "bucket": rule_key.bucket.name})
            if rec.observe_each:
                rec.observe()

    TableMethod.add_rule_key = wrapper


class TableRecorder:
    def __init__(self, tm, nc=None, observe_each=True, sink: Optional[List[dict]] = None):
        _install_table_patches()
        self.tm, self.nc, self.observe_each = tm, nc, observe_each
        self.events: List[dict] = [] if sink is None else sink
        _TM_REG[id(tm)] = self

    def close(self):
        _TM_REG.pop(id(self.tm), None)

    def observe(self, nc=None):
        nc = nc or self.nc
        try:
            fn = self.tm.function
            vec = [(-1 if fn.get(c, 0) is None else int(fn.get(c, 0))) for c in range(nc)]
            extra = [c for c in fn if not 0 <= c < nc]
            if extra:
                vec = []  # malformed: a class outside the universe got a value
        except BaseException:
            vec = []
        self.events.append({"op": "observe", "p": 0, "ch": [], "sh": [], "fn": vec, "bucket": ""})
