"""Descriptors of rule objects and specifications for SpecValid.tla / Trace_Spec.tla."""
from typing import Any, Callable, Dict, List


def _strategy_offered_by(pack, strategy, parent, extra_offers=(), children=(), others=()):
    """ids of the pack elements that offer `strategy` for class `parent`: the strategy itself, a factory
    yielding it for the parent, or a factory that - applied to the parent or to one of the rule's
    children (factories may yield ready rules whose parent differs from the class they are given) -
    yields a ready rule for `parent` made by it."""
    from comb_spec_searcher.strategies.rule import AbstractRule
    from comb_spec_searcher.strategies.strategy import AbstractStrategy, StrategyFactory

    out = []
    for el in list(pack) + list(extra_offers):
        if isinstance(el, StrategyFactory):
            found = False
            # ... or applied to any other class the search has seen (a factory may yield ready rules of classes that are
            # neither the class it is given nor a child of the rule: look-ahead factories)
            for given in (parent,) + tuple(children) + tuple(c for c in others if c != parent and c not in children):
                try:
                    for x in el(given):
                        if isinstance(x, AbstractRule):
                            if x.strategy == strategy and x.comb_class == parent:
                                found = True
                        elif given == parent and x == strategy:
                            found = True
                        if found:
                            break
                except Exception:
                    pass
                if found:
                    break
            if found:
                out.append(repr(el))
        elif isinstance(el, AbstractStrategy) and el == strategy:
            out.append(repr(el))
    return out


def rule_desc(rule, namer: Callable[[Any], str], pack, extra_offers=()) -> dict:
    from comb_spec_searcher.exception import StrategyDoesNotApply
    from comb_spec_searcher.strategies.rule import (EquivalencePathRule, EquivalenceRule, ReverseRule, Rule, VerificationRule)
    from comb_spec_searcher.strategies.strategy import EmptyStrategy

    d = {"form": "rule", "parent": namer(rule.comb_class), "children": [namer(c) for c in rule.children],
         "shifts": [], "strat": repr(rule.strategy), "offered": [], "reapplies": True, "re_children": [],
         "idx": 0, "orig": [], "rules": [], "empty_strategy": isinstance(rule.strategy, EmptyStrategy),
         "cls": type(rule).__name__}
    try:
        d["shifts"] = [int(s) for s in rule.shifts()]
    except Exception as e:
        d["shifts"] = [-999] * (len(d["children"]) + 1)  # malformed on purpose: reported by ShiftsMatchChildren
        d["shifts_error"] = type(e).__name__
    if isinstance(rule, EquivalencePathRule):
        d["form"] = "path"
        d["rules"] = [rule_desc(r, namer, pack, extra_offers) for r in rule.rules]
    elif isinstance(rule, EquivalenceRule):
        d["form"] = "equiv"
        d["orig"] = [rule_desc(rule.original_rule, namer, pack, extra_offers)]
    elif isinstance(rule, ReverseRule):
        d["form"] = "reverse"
        d["idx"] = int(rule.idx)
        d["orig"] = [rule_desc(rule.original_rule, namer, pack, extra_offers)]
    else:
        if isinstance(rule, VerificationRule):
            d["form"] = "verification"
        try:
            again = rule.strategy(rule.comb_class)
            d["re_children"] = [namer(c) for c in again.children]
        except (StrategyDoesNotApply, Exception):
            d["reapplies"] = False
        if not d["empty_strategy"]:
            d["offered"] = _strategy_offered_by(pack, rule.strategy, rule.comb_class, extra_offers, tuple(rule.children),
                                                others=tuple(getattr(namer, "names", {}) or ()))
    return d


def spec_rules_desc(rules, namer, pack, extra_offers=()) -> List[dict]:
    rules = list(rules)
    for r in rules:  # every class of the rule list is known by name before any rule is described (see `others` above)
        namer(r.comb_class)
        for c in r.children:
            namer(c)
    return [rule_desc(r, namer, pack, extra_offers) for r in rules]


def terms_list(counter) -> list:
    return [[list(map(int, p)), int(v)] for p, v in sorted(counter.items())]
