"""Running TLC: model checking, simulation, batch trace validation.

TLC is the judge of every check.  This module only starts it, collects its statistics and
the lines it prints (`PrintT`), and maps its outcome onto three values:
  ok        - run finished, no invariant/property/postcondition failed
  violated  - TLC reported an invariant / property violation (name kept)
  broken    - parse error, Java error, timeout: *machinery* failure (exit 2), never a verdict
"""
import json
import os
import uuid
import re
import shutil
import subprocess
import time
from dataclasses import dataclass, field
from typing import Dict, List, Optional, Sequence

VERIF = os.path.dirname(os.path.dirname(os.path.abspath(__file__)))
SPEC = os.path.join(VERIF, "spec")
JAR = "/opt/veriftools/tla/tla2tools.jar:/opt/veriftools/tla/CommunityModules-deps.jar"


class MachineryError(RuntimeError):
    """Something in the verification machinery itself failed (exit code 2)."""


@dataclass
class TLCResult:
    status: str  # ok | violated | broken
    generated: int = 0  # states generated (= transitions explored + initial)
    distinct: int = 0
    wall: float = 0.0
    violated: Optional[str] = None
    printed: List[str] = field(default_factory=list)  # raw PrintT lines  <<...>>
    out: str = ""
    cmd: str = ""
    coverage: Dict[str, int] = field(default_factory=dict)

    def tuples(self, tag: str) -> List[list]:
        """PrintT lines of the form <<"TAG", ...>> parsed into python lists."""
        res = []
        for line in self.printed:
            if re.match(r'<<\s*"%s"' % re.escape(tag), line):
                res.append(parse_tla_value(line))
        return res


_TOK = re.compile(r'\s*(<<|>>|,|"(?:[^"\\]|\\.)*"|-?\d+|TRUE|FALSE|[A-Za-z_][A-Za-z_0-9]*)')


def parse_tla_value(s: str):
    """Parse the subset of TLA+ values our specs print: tuples, strings, ints, booleans."""
    pos = 0

    def tok():
        nonlocal pos
        m = _TOK.match(s, pos)
        if not m:
            raise MachineryError("cannot parse TLA value: %r at %d" % (s[:200], pos))
        pos = m.end()
        return m.group(1)

    def val(t):
        if t == "<<":
            items = []
            while True:
                t2 = tok()
                if t2 == ">>":
                    return items
                if t2 == ",":
                    continue
                items.append(val(t2))
        if t.startswith('"'):
            return json.loads(t)
        if t == "TRUE":
            return True
        if t == "FALSE":
            return False
        if re.fullmatch(r"-?\d+", t):
            return int(t)
        return t

    return val(tok())


def _depth_change(line: str) -> int:
    """net number of << minus >> outside string literals"""
    d, i, n = 0, 0, len(line)
    instr = False
    while i < n:
        ch = line[i]
        if instr:
            if ch == "\\":
                i += 2
                continue
            if ch == '"':
                instr = False
        elif ch == '"':
            instr = True
        elif line.startswith("<<", i):
            d += 1
            i += 2
            continue
        elif line.startswith(">>", i):
            d -= 1
            i += 2
            continue
        i += 1
    return d


def extract_printed(out: str) -> List[str]:
    """PrintT output: TLC pretty-prints long tuples over several lines; join them back."""
    res, buf, depth = [], [], 0
    for ln in out.splitlines():
        if not buf:
            if not ln.startswith("<<"):
                continue
            buf, depth = [ln.strip()], _depth_change(ln)
        else:
            buf.append(ln.strip())
            depth += _depth_change(ln)
        if depth <= 0:
            res.append(" ".join(buf))
            buf, depth = [], 0
    return res


def read_spec(name: str) -> str:
    with open(os.path.join(SPEC, name)) as f:
        return f.read()


def workdir(tag: str) -> str:
    d = os.path.join(os.environ.get("VERIF_SCRATCH") or VERIF, "work", "%s-%d" % (tag, os.getpid()))
    os.makedirs(d, exist_ok=True)
    return d


def clean_workdir(d: str) -> None:
    shutil.rmtree(d, ignore_errors=True)


def write_module(wd: str, name: str, body: str, cfg: str) -> None:
    with open(os.path.join(wd, name + ".tla"), "w") as f:
        f.write(body)
    with open(os.path.join(wd, name + ".cfg"), "w") as f:
        f.write(cfg)


def run_tlc(
    wd: str,
    module: str,
    *,
    workers: int = 16,
    heap: str = "8g",
    timeout: int = 900,
    simulate: Optional[str] = None,  # e.g. "num=1000"
    depth: Optional[int] = None,
    seed: Optional[int] = None,
    env: Optional[Dict[str, str]] = None,
    deque: bool = False,
    coverage: bool = False,
    cfg: Optional[str] = None,
    extra: Sequence[str] = (),
) -> TLCResult:
    """Run TLC on wd/module.tla (cfg wd/module.cfg); modules of /verif/spec are on the library path."""
    meta = os.path.join(wd, "meta-%s-%s" % (module, uuid.uuid4().hex))  # unique: several JVMs share wd
    cmd = ["java", "-XX:+UseParallelGC", "-Xmx" + heap, "-Xss32m", "-DTLA-Library=" + SPEC]
    if deque:
        cmd.append("-Dtlc2.tool.queue.IStateQueue=StateDeque")
    cmd += ["-cp", JAR, "tlc2.TLC", "-workers", str(workers), "-metadir", meta, "-noGenerateSpecTE"]
    if cfg:
        cmd += ["-config", cfg]
    if simulate is not None:
        cmd += ["-simulate", simulate]
    if depth is not None:
        cmd += ["-depth", str(depth)]
    if seed is not None:
        cmd += ["-seed", str(seed)]
    if coverage:
        cmd += ["-coverage", "1"]
    cmd += list(extra)
    cmd.append(module)
    e = dict(os.environ)
    if env:
        e.update(env)
    t0 = time.time()
    try:
        p = subprocess.run(cmd, cwd=wd, env=e, capture_output=True, text=True, timeout=timeout)
        out = p.stdout + p.stderr
        rc = p.returncode
    except subprocess.TimeoutExpired as ex:
        out = (ex.stdout or b"").decode(errors="replace") if isinstance(ex.stdout, bytes) else (ex.stdout or "")
        shutil.rmtree(meta, ignore_errors=True)
        return TLCResult("broken", out=out + "\nTIMEOUT after %ss" % timeout, cmd=" ".join(cmd), wall=time.time() - t0)
    shutil.rmtree(meta, ignore_errors=True)
    res = TLCResult("ok", out=out, cmd=" ".join(cmd), wall=time.time() - t0)
    res.printed = extract_printed(out)
    m = None
    for m in re.finditer(r"(\d+) states generated, (\d+) distinct states found", out):
        pass
    if m:
        res.generated, res.distinct = int(m.group(1)), int(m.group(2))
    else:
        m2 = None
        for m2 in re.finditer(r"(\d+) states checked", out):  # simulation mode progress
            pass
        if m2:
            res.generated = res.distinct = int(m2.group(1))
    mv = re.search(r"Error: Invariant (\S+) is violated", out)
    mp = re.search(r"Error: Action property (\S+) is violated", out) or re.search(
        r"Error: Temporal properties were violated", out
    )
    mpost = re.search(r"Error: The postcondition|Postcondition .* violated|POSTCONDITION .* violated", out)
    if mv:
        res.status, res.violated = "violated", mv.group(1)
    elif mp:
        res.status = "violated"
        res.violated = mp.group(1) if mp.lastindex else "TemporalProperty"
    elif mpost:
        res.status, res.violated = "violated", "POSTCONDITION"
    elif "Deadlock reached" in out:
        res.status, res.violated = "violated", "Deadlock"
    elif rc != 0 or "Error:" in out:
        res.status = "broken"
    elif simulate is None and "Model checking completed. No error has been found." not in out:
        res.status = "broken"
    if coverage:
        for cm in re.finditer(r"<(\w+) line \d+, col \d+ to line \d+, col \d+ of module (\w+)>: (\d+):(\d+)", out):
            res.coverage[cm.group(1)] = res.coverage.get(cm.group(1), 0) + int(cm.group(4))
    return res


def substitute(text: str, subst: Dict[str, str]) -> str:
    """Rewrite definition lines `Name == value \\* @KEY@` of a module template."""
    for key, val in subst.items():
        pat = re.compile(r"^(\w+\s*==\s*).*?(\s*\\\* @%s@.*)$" % re.escape(key), re.M)
        text, n = pat.subn(lambda m: m.group(1) + val + m.group(2), text)
        if n != 1:
            raise MachineryError("placeholder @%s@ found %d times" % (key, n))
    return text


def first_error(out: str) -> str:
    i = out.find("Error:")
    return out[max(0, i - 200): i + 2500] if i >= 0 else out[:2500]


def require_ok(res: TLCResult, what: str) -> TLCResult:
    if res.status == "broken":
        raise MachineryError("TLC failed (%s):\n%s\n%s\n...\n%s" % (what, res.cmd, first_error(res.out), res.out[-1500:]))
    return res


# ---------------------------------------------------------------------------------------
# batch trace validation

@dataclass
class TraceVerdicts:
    accepted: int
    total: int
    rejects: List[dict]  # {tid, event, clause, extra}
    generated: int
    distinct: int
    wall: float
    infos: List[list] = field(default_factory=list)


def validate_traces(
    wd: str,
    trace_module: str,
    traces: List[dict],
    *,
    jvms: int = 8,
    heap: str = "3g",
    timeout: int = 1200,
    deque: bool = False,
    tag: str = "batch",
    subst: Optional[Dict[str, str]] = None,
) -> TraceVerdicts:
    """Judge traces with the monitor module `trace_module` (in /verif/spec, cfg next to it).

    Every trace is a dict with at least `tid` (string) and `events` (list).  The monitor prints
    <<"REJECT", tid, eventIndex, clause>> for each rejected trace and <<"ACCEPTED", n, "OF", m>>.
    """
    import concurrent.futures

    if not traces:
        return TraceVerdicts(0, 0, [], 0, 0, 0.0)
    if len({t["tid"] for t in traces}) != len(traces):
        raise MachineryError("duplicate trace ids in a batch for %s" % trace_module)
    jvms = max(1, min(jvms, len(traces)))
    chunks = [traces[i::jvms] for i in range(jvms)]
    # the monitor runs in its own directory (one per batch, so that batches with different
    # substitutions of the "\\* @KEY@" definition lines do not overwrite each other)
    wd = os.path.join(wd, "tv-%s-%s" % (trace_module, re.sub(r"[^A-Za-z0-9_.-]", "_", tag)))
    os.makedirs(wd, exist_ok=True)
    shutil.copy(os.path.join(SPEC, trace_module + ".cfg"), os.path.join(wd, trace_module + ".cfg"))
    with open(os.path.join(SPEC, trace_module + ".tla")) as f:
        text = f.read()
    text = substitute(text, subst or {})
    with open(os.path.join(wd, trace_module + ".tla"), "w") as f:
        f.write(text)

    def one(i):
        path = os.path.join(wd, "%s-%s-%d.ndjson" % (tag, trace_module, i))
        with open(path, "w") as f:
            for t in chunks[i]:
                f.write(json.dumps(t, separators=(",", ":")))
                f.write("\n")
        r = run_tlc(wd, trace_module, workers=1, heap=heap, timeout=timeout, env={"TRACE_FILE": path}, deque=deque)
        return r

    t0 = time.time()
    with concurrent.futures.ThreadPoolExecutor(max_workers=jvms) as ex:
        results = list(ex.map(one, range(jvms)))
    acc = tot = gen = dis = 0
    rejects, infos = [], []
    for i, r in enumerate(results):
        if r.status != "ok":
            raise MachineryError("trace monitor %s failed:\n%s\n%s\n...\n%s" % (trace_module, r.cmd, first_error(r.out), r.out[-1500:]))
        a = r.tuples("ACCEPTED")
        if len(a) != 1 or a[0][3] != len(chunks[i]):
            raise MachineryError("trace monitor %s: missing/odd ACCEPTED line:\n%s" % (trace_module, r.out[-3000:]))
        acc += a[0][1]
        tot += a[0][3]
        gen += r.generated
        dis += r.distinct
        for rej in r.tuples("REJECT"):
            rejects.append({"tid": rej[1], "event": rej[2], "clause": rej[3], "extra": rej[4:]})
        infos.extend(r.tuples("INFO"))
    if acc + len(rejects) != tot:
        raise MachineryError("trace monitor %s: accepted %d + rejected %d != total %d" % (trace_module, acc, len(rejects), tot))
    return TraceVerdicts(acc, tot, rejects, gen, dis, time.time() - t0, infos)
